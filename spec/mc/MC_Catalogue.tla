---------------------------- MODULE MC_Catalogue ----------------------------
(***************************************************************************)
(* Bounded exhaustive check of the loader RULES of CatalogueBuild.tla.     *)
(*                                                                         *)
(* Regions r1, r2 (zero-length), r3; a pseudogene; variants v1 (core, r1), *)
(* v2 (core, r3), v3 (silent, r1).  The reference allele (no variants)     *)
(* plus a BAG of NAlt further database alleles, each with any variant set  *)
(* and one of: no structural entry, left fusion at r1 / r3, right fusion   *)
(* at r3, whole-gene deletion, custom deletion of {r1} / {r3}; at most     *)
(* MaxLeft left fusions, one right fusion, one deletion, one custom        *)
(* deletion.  Duplicate variant sets and fusions with / without own core   *)
(* variants arise by enumeration.  Name order (rank) = database order or   *)
(* its reverse.  Names, labels and their collisions are not part of the    *)
(* specification (names are abstract); binding (A) gives every table       *)
(* hostile real names.                                                     *)
(*   MC_Catalogue_quick.cfg: NAlt = 3, MaxLeft = 1                         *)
(*   MC_Catalogue.cfg      : NAlt = 4, MaxLeft = 1                         *)
(*   MC_Catalogue_two.cfg  : NAlt = 3, MaxLeft = 2: all invariants except  *)
(*        MajorsDistinct, which holds only modulo the known shape (a       *)
(*        candidate of an extended fusion next to a database-defined       *)
(*        allele of the same fusion)                                       *)
(*   MC_Catalogue_repaired.cfg: same tables, RepairedRule = TRUE: all      *)
(*        invariants including MajorsDistinct hold for the proposed repair *)
(***************************************************************************)
EXTENDS CatalogueBuild, TLC

CONSTANTS NAlt, MaxLeft, PseudoZero

VarSets == SUBSET (1..3)
Structs == << [kind |-> "none", brk |-> 0, del |-> {}],
              [kind |-> "left", brk |-> 1, del |-> {}],
              [kind |-> "left", brk |-> 3, del |-> {}],
              [kind |-> "right", brk |-> 3, del |-> {}],
              [kind |-> "deletion", brk |-> 0, del |-> {}],
              [kind |-> "custom", brk |-> 0, del |-> {1}],
              [kind |-> "custom", brk |-> 0, del |-> {3}] >>
VarSetSeq == << {}, {1}, {2}, {3}, {1, 2}, {1, 3}, {2, 3}, {1, 2, 3} >>
NE == Len(Structs) * Len(VarSetSeq)
Entry(i) == [vars |-> VarSetSeq[((i - 1) % Len(VarSetSeq)) + 1],
             st   |-> Structs[((i - 1) \div Len(VarSetSeq)) + 1]]

\* non-decreasing index tuples of length k (bags of entries)
RECURSIVE Sorted(_, _)
Sorted(k, lo) == IF k = 0 THEN {<< >>}
                 ELSE UNION {{<<i>> \o t : t \in Sorted(k - 1, i)} : i \in lo..NE}
Count(t, kind) == Cardinality({i \in 1..Len(t) : Entry(t[i]).st.kind = kind})
GoodBag(t) == /\ Count(t, "left") <= MaxLeft /\ Count(t, "right") <= 1
              /\ Count(t, "deletion") <= 1 /\ Count(t, "custom") <= 1

MkTab(t, rev) ==
    LET NA == Len(t) + 1 IN
    [NR |-> 3, Zero |-> {2}, ZeroP |-> IF PseudoZero THEN {2} ELSE {}, pseudo |-> TRUE, NV |-> 3, Core |-> {1, 2},
     reg |-> <<1, 3, 1>>, NA |-> NA,
     al |-> [a \in 1..NA |->
               IF a = 1 THEN [rank |-> IF rev THEN NA ELSE 1, vars |-> {}, kind |-> "none", brk |-> 0, del |-> {}]
               ELSE LET e == Entry(t[a - 1]) IN
                    [rank |-> IF rev THEN NA + 1 - a ELSE a, vars |-> e.vars,
                     kind |-> e.st.kind, brk |-> e.st.brk, del |-> e.st.del]]]

Init ==
    /\ tab \in {MkTab(t, rev) : t \in {x \in Sorted(NAlt, 1) : GoodBag(x)}, rev \in BOOLEAN}
    /\ phase = "init" /\ cfgs = << >> /\ majors = {} /\ removed = {}
Spec == Init /\ [][LoaderNext]_cvars

Done == phase = "done"
\* the stepwise loader and the loader-as-a-function agree
StepwiseIsCatalogue == Done => Cat = CatalogueR(tab, RepairedRule)
InvReachable == Done => EveryAlleleReachable(tab, Cat)
InvMajorsDistinct == Done => MajorsDistinct(Cat)
\* the only duplicates are of the known shape, which needs two left-fusion alleles
InvMajorsDistinctModuloKnown ==
    Done => /\ OnlyPartialVsDefined(Cat)
            /\ Cardinality({a \in 1..tab.NA : tab.al[a].kind = "left"}) <= 1 => MajorsDistinct(Cat)
InvCoreIffFunctional == Done => CoreIffFunctional(tab, Cat)
InvMinorsDistinct == Done => MinorsDistinct(Cat)
InvConfigExists == Done => ConfigExists(Cat)
InvPartialKeepsRetained == Done => PartialKeepsRetained(tab, Cat) /\ PartialsComplete(tab, Cat)
InvConfigsDistinct == phase \notin {"init", "read"} => ConfigsDistinct([cfgs |-> cfgs])
\* aliases point to surviving minors of the same major
InvAliasesLive == Done => \A p \in removed : Holders(Cat, p[2]) # {} /\ Holders(Cat, p[1]) = {}
=============================================================================
