---------------------------- MODULE MC_BuildIndep ----------------------------
(***************************************************************************)
(* Bounded exhaustive check of BuildIndep (C13).                           *)
(* Catalogue: RefSeq of 24 bases, regions up|e1|i1|e2 (6 bases each), cn    *)
(* regions e1,i1,e2; variants 20delCT (core, 2 bases, exon 2), 8A>G (silent,*)
(* exon 1), 14C>T (silent, intron 1); structures "1" and the left fusion    *)
(* "4" (break at i1: pseudogene up,e1 + gene i1,e2); majors *1, *2 (20delCT)*)
(* and the fusion's partial alleles 4#1, 4#2; two minors for *1 and *2.     *)
(* Builds: hg19 '+' at 100, hg38 '-' at 537 (opposite strands, different    *)
(* offsets).  Evidence: every table with nv, nr in Counts^3 (observations   *)
(* per variant / per locus; one copy = 10) x the region-depth vectors       *)
(* Depths (planted from {1,1}, {1,4}, {4,4}, {1,1,+1}, and a noisy one).    *)
(*   MC_BuildIndep.cfg        nv, nr in {0,10,20}^3, depth vectors 1-4      *)
(*   MC_BuildIndep_three.cfg  nv in {0,10,20}^3, nr in {10,20}^3, depth      *)
(*                            vector 5 (three copies: ~1 s per run in TLC)   *)
(*   MC_BuildIndep_quick.cfg  nv in {0,10,20}^3, nr in {10,20}^3, depth      *)
(*                            vectors 1-4 (no three-copy structure)          *)
(* Hazard cfgs (BuildFree must be VIOLATED): _genome_order, _refseq_anchor; *)
(* non-vacuity cfgs (probe invariants must be violated): _nonempty, _fusion.*)
(***************************************************************************)
EXTENDS BuildIndep

MCBuilds == {"hg19", "hg38"}
MCStrand == [hg19 |-> 1, hg38 |-> 0 - 1]
MCOffset == [hg19 |-> 100, hg38 |-> 537]
MCRegions == << [name |-> "up", s |-> 0, e |-> 6], [name |-> "e1", s |-> 6, e |-> 12],
                [name |-> "i1", s |-> 12, e |-> 18], [name |-> "e2", s |-> 18, e |-> 24] >>
MCCnRegions == <<"e1", "i1", "e2">>
MCVariants == << [name |-> "20delCT", pos |-> 19, len |-> 2, ins |-> FALSE, core |-> TRUE],
                 [name |-> "8A>G",    pos |-> 7,  len |-> 1, ins |-> FALSE, core |-> FALSE],
                 [name |-> "14C>T",   pos |-> 13, len |-> 1, ins |-> FALSE, core |-> FALSE] >>
MCConfigs == << [name |-> "1", kind |-> "default", brk |-> ""], [name |-> "4", kind |-> "left", brk |-> "i1"] >>
MCMajors == << [name |-> "1", cfg |-> 1, core |-> <<>>], [name |-> "2", cfg |-> 1, core |-> <<1>>],
               [name |-> "4#1", cfg |-> 2, core |-> <<>>], [name |-> "4#2", cfg |-> 2, core |-> <<1>>] >>
MCMinors == << [name |-> "1.001", major |-> 1, silent |-> <<>>],   [name |-> "1.002", major |-> 1, silent |-> <<2>>],
               [name |-> "2.001", major |-> 2, silent |-> <<>>],   [name |-> "2.002", major |-> 2, silent |-> <<3>>],
               [name |-> "4#1.001", major |-> 3, silent |-> <<>>], [name |-> "4#2.001", major |-> 4, silent |-> <<>>] >>
MCPCN == [diff10 |-> 100, fit10 |-> 10, pars |-> 37500, parsL |-> 18750, parsR |-> 9375, cnMax100 |-> 2000, gapN |-> 0, gapD |-> 1]
MCPStage == [thrN |-> 1, thrD |-> 2, minCov10 |-> 20, cnMax |-> 20, novelPen |-> 210000, gapN |-> 0, gapD |-> 1,
             missPen |-> 15000, addPen |-> 10000, phasePen |-> 4000]

CONSTANTS CountsV, CountsR, DepthSel
(* region depths (1/100 copies) in Regions order up,e1,i1,e2: gene / pseudogene *)
DepthList == << [g |-> <<200, 200, 200, 200>>, p |-> <<200, 200, 200, 200>>],      \* 1: 1/1
               [g |-> <<100, 100, 200, 200>>, p |-> <<200, 200, 100, 100>>],      \* 2: 1/4
               [g |-> <<0, 0, 200, 200>>,     p |-> <<200, 200, 0, 0>>],          \* 3: 4/4
               [g |-> <<130, 110, 170, 210>>, p |-> <<190, 220, 120, 90>>],       \* 4: noisy 1/4
               [g |-> <<300, 300, 300, 300>>, p |-> <<200, 200, 200, 200>>] >>    \* 5: 1/1 + an extra copy
Depths == {DepthList[i] : i \in DepthSel}
MCEvidence == {[nv |-> v, nr |-> r, dg |-> d.g, dp |-> d.p] :
                  v \in [1..3 -> CountsV], r \in [1..3 -> CountsR], d \in Depths}
=============================================================================
