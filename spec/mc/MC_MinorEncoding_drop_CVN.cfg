\* reduced universe (1 copy): without rule 1 the selectors of unselected alleles are free (x256 points per allele)
CONSTANTS
  Copies = 1
  Extras = TRUE
  Families = {1, 2, 3, 4}
  Margin = 50
  Drop = {"CVN"}
SPECIFICATION Spec
INVARIANT RuleRedundant
