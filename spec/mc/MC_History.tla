----------------------------- MODULE MC_History -----------------------------
(***************************************************************************)
(* Bounded exhaustive exploration of History.tla: the alphabet instantiated*)
(* with 2 gene databases A, B (+ C, which always fails with a reported     *)
(* error), 1 sample, one representative accessor per object class, the     *)
(* writers, a query, the store perturbation, one further hash seed and the *)
(* minor stage on all orderings of two candidates of different structure.  *)
(* 16 operations; histories of length <= 4 (MC_History_quick.cfg) / <= 5   *)
(* (MC_History.cfg).  The model is "pure functions + one write-only store",*)
(* so this run is a generator of histories plus the sanity that the        *)
(* monitor properties hold on Next -- and that each of them is VIOLATED    *)
(* when the hazard action named after the code is added                    *)
(* (MC_History_hazard_*.cfg: expected counterexamples = anti-vacuity).     *)
(***************************************************************************)
EXTENDS History

MCGenes == {"A", "B", "C"}
MCFailing == {"C"}
MCStruct == [c \in {"c1", "c2"} |-> IF c = "c1" THEN "1,1" ELSE "1"]
MCOps ==
    {Op("Genotype", "aldy/s1", <<g>>, 0) : g \in {"A", "B"}}
    \cup {Op("GenotypeMulti", "aldy/s1", L, 0) : L \in {<<"A", "B">>, <<"A", "C", "B">>}}
    \cup {Op("Stage", st, <<"A">>, 0) : st \in {"cn", "minor"}}
    \cup {Op("Accessor", a, <<"A", "B">>, 0) : a \in {"get_rsid", "SolvedAllele.mutations"}}
    \cup {Op("Write", "decomposition", <<"A">>, 0), Op("Query", "all", <<"B">>, 0)}
    \cup {Op("Store", "poison", <<>>, 0)}
    \cup {Op("FreshProcess", "", <<>>, 1)}
    \cup {Op("Refine", "", L, 0) : L \in {<<"c1">>, <<"c2">>, <<"c1", "c2">>, <<"c2", "c1">>}}
NoHazards == {}
HzAccessor == {"AccessorMutatesDb"}
HzFilter == {"FilterFromLastCandidate"}
HzTieBreak == {"TieBreakFromHashOrder"}
HzStore == {"ResultFromStore"}
HzLeak == {"FailingGeneLeaks"}
=============================================================================
