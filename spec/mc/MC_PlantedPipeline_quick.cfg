CONSTANT Gaps = {1000}
SPECIFICATION MCSpec
INVARIANT PlantedMajorSelected
INVARIANT PlantedFinalZero
INVARIANT PlantedReported
INVARIANT PlantedFirst
INVARIANT NoErrorPastPlanted
