CONSTANTS
  Ms = {3, 4}
  CnMaxs = {2000, 100}
  FsSet = {0, 1, 2}
  XMax = 2
  QMax = 1
  Margin = 20000
  Drop = {}
SPECIFICATION Spec
INVARIANT Refines
