CONSTANT MaxN = 4
SPECIFICATION Spec
INVARIANT LowQIsStutter
INVARIANT LowInvisibleInv
INVARIANT PassMonotone
INVARIANT PassImpliesMinCov
