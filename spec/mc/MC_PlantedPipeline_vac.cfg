CONSTANT Gaps = {1000}
SPECIFICATION MCSpec
INVARIANT NeverZeroChainWithRival
