----------------------------- MODULE MC_Guards -----------------------------
(* Bounded exhaustive check of Guards: every well-formed combination of                                *)
(*   input {alignment, vcf} x route {profile, bam-profile, user-structure} x output {aldy, vcf, simple} *)
(*   x single/multi-gene run x locus reads {0, some} x average depth 0..3 x min_avg_coverage {2, 3}     *)
(*   x neutral reads {0, some} x neutral depth 0..3 x pseudogene-only x structure-stage depth low/ok    *)
(* and every interleaving of the guard / stage outcomes.                                               *)
(*   MC_Guards_impl_nocall.cfg   code as shipped, INVARIANT NoCallFromNoData      -> VIOLATED (known    *)
(*                               defect: user-structure route); the counterexample is the witness input *)
(*   MC_Guards_impl_simple.cfg   code as shipped, INVARIANT SimpleOutputEmptyLine -> VIOLATED           *)
(*   MC_Guards_impl_simple_open.cfg  same, INVARIANT SimpleLineOnceStarted (columns written, line left open) -> VIOLATED *)
(*   MC_Guards_impl_rest.cfg     code as shipped, the remaining invariants + termination -> hold        *)
(*   MC_Guards_fix1.cfg          depth guard unconditional only: NoCallFromNoData still VIOLATED by     *)
(*                               reads that lie between gene and pseudogene                             *)
(*   MC_Guards_fixed.cfg         all three repairs: every invariant + termination hold                  *)
EXTENDS Guards
MCMins == {2, 3}
=============================================================================
