CONSTANTS
  G <- MCGene
  MaxOps = 1
  MaxLen = 1
  NReads = 2
  Mode = "multi"
SPECIFICATION MCSpec
INVARIANT OperationalEqualsDeclarative
INVARIANT DepthConservation
INVARIANT SubCounts
INVARIANT SplitInvariant
INVARIANT PhaseRecordSound
INVARIANT QualityKept
INVARIANT MnpQualityKept
INVARIANT OrderIndependent
