SPECIFICATION MCSpecHazard
INVARIANT SupportProportional
INVARIANT ReferenceReduced
INVARIANT Untouched
INVARIANT IgnoredAreNoOps
INVARIANT OrderIndependent
INVARIANT DiplotypeRecovered
