CONSTANTS
  Copies = 2
  Extras = FALSE
  Families = {2, 4}
  Margin = 50
  Drop = {"CMAXCOV"}
SPECIFICATION Spec
INVARIANT Refines
