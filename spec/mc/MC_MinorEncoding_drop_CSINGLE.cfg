CONSTANTS
  Copies = 2
  Extras = TRUE
  Families = {1, 2, 3, 4}
  Margin = 50
  Drop = {"CSINGLE"}
SPECIFICATION Spec
INVARIANT RuleRedundant
