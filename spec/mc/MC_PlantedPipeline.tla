------------------------ MODULE MC_PlantedPipeline ------------------------
(***************************************************************************)
(* Design-level argument of C01 on the Pipeline model: a candidate chain    *)
(* whose three stage scores are the stage minima (what MC_CNEncoding /      *)
(* MC_MajorModel / MC_MinorModel show for the PLANTED genotype on            *)
(* noise-free evidence: structure optimal, major score 0, minor score 0)     *)
(* is never dropped by a selection step and is among the reported            *)
(* solutions, for every gap, whatever else the stages return (scores are     *)
(* non-negative).  Same bounded universe as MC_Pipeline.                     *)
(***************************************************************************)
EXTENDS MC_Pipeline

BestStructure(c) == cnS[c].score = MinCN
ZeroMajor(j) == majS[j].raw = 0 /\ BestStructure(majS[j].cn)
ZeroChain(i) == minS[i].raw = 0 /\ ZeroMajor(minS[i].maj)

(* a planted major candidate is handed to the refinement *)
PlantedMajorSelected ==
    pc \in {"minor", "final", "done"} => \A j \in DOMAIN majS : ZeroMajor(j) => j \in SeqToSet(selMaj)
(* a planted refined candidate has final score 0 and is reported, first *)
PlantedFinalZero == \A i \in DOMAIN minS : ZeroChain(i) => (minS[i].carried = 0 /\ minS[i].final = 0)
PlantedReported == pc = "done" => \A i \in DOMAIN minS : ZeroChain(i) => i \in SeqToSet(report)
PlantedFirst ==
    pc = "done" => \A i \in DOMAIN minS : ZeroChain(i) => Key1000(minS[report[1]].final) = 0
(* with a planted candidate at every stage the run cannot end in an error after that stage *)
NoErrorPastPlanted ==
    /\ (pc = "failed" /\ err = "major") => Len(majS) = 0
    /\ (pc = "failed" /\ err = "minor") => Len(minS) = 0
(* anti-vacuity: a run that reports a zero chain next to another candidate exists *)
NeverZeroChainWithRival == ~(pc = "done" /\ Len(report) >= 2 /\ \E i \in DOMAIN minS : ZeroChain(i))
=============================================================================
