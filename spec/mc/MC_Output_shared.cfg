CONSTANTS
  MaxSols = 2
  MaxCopies = 2
  bug = "shared"
  VT <- Tab
SPECIFICATION MCSpec
INVARIANT InvParseBackVcf
