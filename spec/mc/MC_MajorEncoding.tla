-------------------------- MODULE MC_MajorEncoding --------------------------
(***************************************************************************)
(* Bounded check of the major-stage ENCODING layer against the semantic    *)
(* layer (C02; DESIGN 3.1, 3.2 (C)).                                        *)
(*                                                                          *)
(* Universe (fixed small catalogue, realised as a real gene by              *)
(* harness/checks/enc.py): 3 sites; core variants v1, v2 (substitutions     *)
(* sharing site 1), v3 (insertion at site 2), v4 (substitution at site 3);  *)
(* configuration 1 = default, 2 = a fusion that lost site 1; alleles        *)
(* a1 {} a2 {v1,v4} a3 {v2,v4} a4 {v3} (default) and a5 {v4} (fusion);      *)
(* structures of 1..Copies copies; evidence = D reads per copy planted from *)
(* every multiset of the catalogue, then ONE op (a variant or the reference *)
(* of a site) perturbed: zeroed, -D/2, +D/2 or +D reads; novel penalty      *)
(* PenSeq[1..NPens] (fixed-point units; explored in that order so that     *)
(* witnesses prefer the default).                                          *)
(*                                                                          *)
(* Drop = {}  : invariant Refines  = EncodingRefinesSemantics on every case. *)
(* Drop = {K} : invariant RuleRedundant = "the allowed outputs (gap 0) and   *)
(*   the optimal score without K are those of the semantic layer"; a         *)
(*   counterexample is an input that DISTINGUISHES rule K; it is printed as  *)
(*   <<"V", "WITNESS", Drop, structure, evidence, novelPen, allowed, allowed *)
(*   without K>> (a flat tuple: tlc.parse_prints cannot read wrapped records). *)
(***************************************************************************)
EXTENDS MajorEncoding, TLCExt
CONSTANTS D, Copies, NPens, Margin
PenSeq == <<210000, 0>>          \* major_novel 21 (default) first, then 0 ("no penalty")

Vars == << [si |-> 1, ins |-> FALSE], [si |-> 1, ins |-> FALSE], [si |-> 2, ins |-> TRUE], [si |-> 3, ins |-> FALSE] >>
Cfgs == << [name |-> "1", cn |-> <<1, 1, 1>>], [name |-> "f", cn |-> <<0, 1, 1>>] >>
Alleles == << [name |-> "a1", cfg |-> 1, core |-> <<>>], [name |-> "a2", cfg |-> 1, core |-> <<1, 4>>],
              [name |-> "a3", cfg |-> 1, core |-> <<2, 4>>], [name |-> "a4", cfg |-> 1, core |-> <<3>>],
              [name |-> "a5", cfg |-> 2, core |-> <<4>>] >>
Structs == { st \in { <<[cfg |-> 1, n |-> 1]>>, <<[cfg |-> 1, n |-> 2]>>, <<[cfg |-> 1, n |-> 3]>>,
                      <<[cfg |-> 1, n |-> 1], [cfg |-> 2, n |-> 1]>>, <<[cfg |-> 2, n |-> 2]>>,
                      <<[cfg |-> 1, n |-> 2], [cfg |-> 2, n |-> 1]>> } :
             SumDom(st, LAMBDA k : st[k].n) <= Copies }
Par(pen) == [thrN |-> 1, thrD |-> 2, minCov10 |-> 20, cnMax |-> 20, novelPen |-> pen, gapN |-> 0, gapD |-> 1]

VARIABLES stage, info, case
vars == <<stage, info, case>>

OpRec(name, n, ins, v) == [op |-> name, good |-> n, low |-> 0, ins |-> ins, var |-> v, tab |-> <<>>, elig |-> TRUE]
CoreOf(a) == SeqToSet(Alleles[a].core)
CopiesWith(x, v) == Cardinality({k \in DOMAIN x : v \in CoreOf(x[k])})
HasCn(a, i) == Cfgs[Alleles[a].cfg].cn[i] > 0
RefCopies(x, i) == Cardinality({k \in DOMAIN x : HasCn(x[k], i) /\ ~\E v \in CoreOf(x[k]) : Vars[v].si = i /\ ~Vars[v].ins})
Pos0(n) == IF n < 0 THEN 0 ELSE n
SiteOf(x, i, bump) ==
    LET vs == {v \in DOMAIN Vars : Vars[v].si = i}
        cnt(v) == Pos0(D * CopiesWith(x, v) + (IF bump[1] = v THEN bump[2] ELSE 0))
        ref == Pos0(D * RefCopies(x, i) + (IF bump[1] = 10 + i THEN bump[2] ELSE 0))
        ops == <<OpRec("_", ref, FALSE, 0)>>
               \o SetToSeq({OpRec("v", cnt(v), Vars[v].ins, v) : v \in {w \in vs : cnt(w) > 0}})
    IN [pos |-> i, ops |-> ops]
MkCase(st, x, bump, pen) ==
    [p |-> Par(pen), sites |-> [i \in 1..3 |-> SiteOf(x, i, bump)], vars |-> Vars, cfgs |-> Cfgs, struct |-> st, alleles |-> Alleles]

BagsFor(st) == LET c0 == [p |-> Par(0), sites |-> <<>>, vars |-> Vars, cfgs |-> Cfgs, struct |-> st, alleles |-> Alleles]
                   dAll == [obs |-> DOMAIN Vars, cand |-> DOMAIN Alleles]
               IN CombosFrom(c0, dAll, 1)
Deltas == {0 - 3 * D, 0 - (D \div 2), D \div 2, D}
Bumps == {<<0, 0>>} \cup {<<t, s>> : t \in {1, 2, 3, 4, 11, 12, 13}, s \in Deltas}

Init == \E pk \in 1..NPens : \E st \in Structs : \E x \in BagsFor(st) : LET pen == PenSeq[pk] IN
            /\ stage = "bag" /\ info = [st |-> st, x |-> x, pen |-> pen, bump |-> <<0, 0>>] /\ case = <<>>
Next == /\ stage = "bag"
        /\ \E b \in Bumps : /\ stage' = "case"
                            /\ info' = [info EXCEPT !.bump = b]
                            /\ case' = MkCase(info.st, info.x, b, info.pen)
Spec == Init /\ [][Next]_vars

(* ---- Drop = {}: the refinement theorem ---- *)
Refines == stage = "case" => EncodingRefinesSemantics(case)

(* ---- Drop = {K}: is rule K redundant on this input? ---- *)
Proj2(T) == {<<t[1], t[2]>> : t \in T}
Evidence(c) == [i \in DOMAIN c.sites |-> [k \in DOMAIN c.sites[i].ops |-> <<c.sites[i].ops[k].var, c.sites[i].ops[k].good>>]]
StructOf(c) == [k \in DOMAIN c.struct |-> <<c.struct[k].cfg, c.struct[k].n>>]
Distinguishes(c) ==
    LET d == Derive(c)
        E == TLCEval(MinTable(EncTable(c, d)))
        S == TLCEval(SemTable(c, d))
        AE == Within(E, 0, 1)
        AS == Within(S, 0, 1)
        differs == IF E = {} \/ S = {} THEN E # S
                   ELSE \/ Abs(Best(E) - Best(S)) >= Margin
                        \/ (Best(E) = Best(S) /\ Proj2(AE) # Proj2(AS))
    IN IF d.edge \/ ~differs THEN FALSE
       ELSE PrintT(<<"V", "WITNESS", Drop, StructOf(c), Evidence(c), c.p.novelPen, AS, AE>>)
RuleRedundant == stage = "case" => ~Distinguishes(case)
=============================================================================
