CONSTANTS
  D = 20
  Copies = 3
  NPens = 2
  Margin = 50
  Drop = {"CXOR"}
SPECIFICATION Spec
INVARIANT RuleRedundant
