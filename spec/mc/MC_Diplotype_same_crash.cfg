CONSTANTS
  Nums = {1, 2, 4, 13}
  Sufs = {0, 3}
  MaxN = 4
  TandemChoices <- TC_same
  Fix = FALSE
  DelKey = 5
SPECIFICATION MCSpec
INVARIANT Completes
