---------------------------- MODULE MC_VcfInput ----------------------------
(***************************************************************************)
(* Bounded exhaustive check of VcfInput.                                   *)
(* Reference window  T A C G T G G A  (sites 0..7; records start at 1..6). *)
(* Catalogue: one variant of each kind                                     *)
(*    <<1,"A>G">>  <<2,"delC">>  <<3,"insA">>  <<5,"GG>CC">> (MNP)         *)
(* alleles *1 = {} (reference), *2..*5 = one variant each.                 *)
(* U1: EVERY record with POS in 1..6, REF one base (matching or not) or    *)
(*     the two reference bases, one or two ALT alleles of length <= 2 over *)
(*     ACGT, genotypes 0/0 0/1 1/1 ./1 0/0/1 (and 1/2 with two ALTs):      *)
(*     64,410 records = single-record files (203,028 states in all).       *)
(* U2: the standard records of the catalogued variants, the MNP components *)
(*     as single-base records, a REF-mismatch spelling, an uncatalogued    *)
(*     SNV, a complex record, two multi-allelic records x all genotypes:   *)
(*     two-record files in BOTH orders (U2 x U2).                          *)
(* MergeMNP interleaves freely with Record.                                *)
(***************************************************************************)
EXTENDS VcfInput

Window == <<"T", "A", "C", "G", "T", "G", "G", "A">>
MCMnp == [site |-> 5, l |-> <<"G", "G">>, r |-> <<"C", "C">>, op |-> "GG>CC"]
MCGene == [segs |-> << [lo |-> 0, b |-> Window] >>,
           cat |-> {<<1, "A>G">>, <<2, "delC">>, <<3, "insA">>, <<5, "GG>CC">>},
           mnps |-> {MCMnp},
           alleles |-> << [name |-> "1", vs |-> {}],
                          [name |-> "2", vs |-> {<<1, "A>G">>}],
                          [name |-> "3", vs |-> {<<2, "delC">>}],
                          [name |-> "4", vs |-> {<<3, "insA">>}],
                          [name |-> "5", vs |-> {<<5, "GG>CC">>}] >>]

Strs == {<<a>> : a \in DNA} \cup {<<a, b>> : a, b \in DNA}
G00 == <<0, 0>>
G01 == <<0, 1>>
G11 == <<1, 1>>
G12 == <<1, 2>>
Gm1 == <<-1, 1>>
G001 == <<0, 0, 1>>
GTs(al) == IF Len(al) = 1 THEN {G00, G01, G11, Gm1, G001} ELSE {G00, G01, G11, G12, Gm1, G001}
Refs(p) == {<<b>> : b \in DNA} \cup {<<Window[p + 1], Window[p + 2]>>}
AltLists(rf) == {<<a>> : a \in Strs \ {rf}}
                \cup {<<a, b>> : <<a, b>> \in {x \in (Strs \ {rf}) \X (Strs \ {rf}) : x[1] # x[2]}}
Rec(p, rf, al, g) == [pos |-> p, ref |-> rf, alts |-> al, gt |-> g]
(* U1 is never materialised here (TLC's UNION is quadratic): the action quantifies;    *)
(* spec/gen/VcfInputGen.tla maps over a filtered product to emit the files.            *)
AllRefs == UNION {Refs(p) : p \in 1..6}
AltOf == [rf \in AllRefs |-> AltLists(rf)]

Focus == {
    <<1, <<"A">>, <<<<"G">>>>>>,                 \* catalogued substitution, standard
    <<1, <<"G">>, <<<<"A">>>>>>,                 \* the same through a REF mismatch (REF = G, ALT = RefSeq base)
    <<1, <<"A", "C">>, <<<<"A">>>>>>,            \* catalogued deletion, left-anchored
    <<3, <<"G">>, <<<<"G", "A">>>>>>,            \* catalogued insertion, left-anchored
    <<5, <<"G", "G">>, <<<<"C", "C">>>>>>,       \* catalogued MNP in one record
    <<5, <<"G">>, <<<<"C">>>>>>,                 \* its components as adjacent records
    <<6, <<"G">>, <<<<"C">>>>>>,
    <<1, <<"A">>, <<<<"T">>>>>>,                 \* uncatalogued SNV at a catalogued site
    <<3, <<"G", "T">>, <<<<"C", "A">>>>>>,       \* unrelated MNP
    <<1, <<"A">>, <<<<"G">>, <<"T">>>>>>,        \* multi-allelic
    <<5, <<"G">>, <<<<"C">>, <<"G", "A">>>>>> }  \* multi-allelic: MNP component + insertion
U2 == UNION {{Rec(f[1], f[2], f[3], g) : g \in GTs(f[3])} : f \in Focus}


ASSUME DisjointMnps(MCGene)
ASSUME \A r \in U2 : r.pos \in 1..6 /\ r.ref \in Refs(r.pos) /\ r.alts \in AltOf[r.ref] /\ r.gt \in GTs(r.alts)

MCInit == gene = MCGene /\ file = <<>> /\ norm = <<>> /\ muts = <<>> /\ pc = "read"
MCNext ==
    \/ /\ Len(file) = 0
       /\ \E p \in 1..6 : \E rf \in Refs(p) : \E al \in AltOf[rf] : \E g \in GTs(al) : Record(Rec(p, rf, al, g))
    \/ \E r \in U2 : Len(file) = 1 /\ file[1] \in U2 /\ Record(r)
    \/ \E m \in gene.mnps : MergeMNP(m)
    \/ Close
    \/ Finish
MCSpec == MCInit /\ [][MCNext]_vars

(* the quick configuration explores single-record files over U2 plus all two-record files *)
MCNextQuick ==
    \/ \E r \in U2 : Len(file) <= 1 /\ Record(r)
    \/ \E m \in gene.mnps : MergeMNP(m)
    \/ Close
    \/ Finish
MCSpecQuick == MCInit /\ [][MCNextQuick]_vars
=============================================================================
