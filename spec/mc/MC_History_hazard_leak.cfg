CONSTANT Ops <- MCOps
CONSTANT AllGenes <- MCGenes
CONSTANT Failing <- MCFailing
CONSTANT Struct <- MCStruct
CONSTANT MaxLen = 4
CONSTANT Hazards <- HzLeak
SPECIFICATION Spec
INVARIANT TypeOK
PROPERTY MultiIsUnionOfSingles
CHECK_DEADLOCK FALSE
