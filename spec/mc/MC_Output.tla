------------------------------ MODULE MC_Output ------------------------------
(***************************************************************************)
(* Bounded exhaustive check of the writers of Output.tla: parse-back of    *)
(* what they produce recovers the reported solutions.                      *)
(*                                                                         *)
(* Universe: reference ACGT x 5 at 100..119; 4 variants of the 4 kinds     *)
(* (1 substitution G>T @102, 2 insertion insTT after 105, 3 deletion delAC *)
(* @108, 4 multi-nucleotide substitution CG>TA @113); 7 copy options (3    *)
(* alleles with added / lost variants, two of them carrying nothing);      *)
(* solutions = sequences of 1..MaxCopies options; S = sequences of         *)
(* 1..MaxSols solutions (so solutions that differ, and equal ones);        *)
(* extensions vcf / simple / aldy / txt.                                   *)
(*   MC_Output.cfg        MaxSols 3 x MaxCopies 2, Bug "none"              *)
(*   MC_Output_wide.cfg   MaxSols 2 x MaxCopies 3, Bug "none"              *)
(*   MC_Output_quick.cfg  MaxSols 2 x MaxCopies 2, Bug "none"              *)
(*   MC_Output_shared.cfg / _nomissing.cfg: the shipped write_vcf -        *)
(*        EXPECTED TO FAIL InvParseBackVcf (design-level reproduction)     *)
(***************************************************************************)
EXTENDS Output
CONSTANTS MaxSols, MaxCopies

Ref == [start |-> 100, seq |-> <<"A","C","G","T","A","C","G","T","A","C","G","T","A","C","G","T","A","C","G","T">>]
Tab == <<
  [site |-> 102, kind |-> "sub", l |-> <<"G">>, r |-> <<"T">>, op |-> "G>T", cov |-> 11, effect |-> "none", rsid |-> "rs1", cat |-> TRUE, win |-> Ref],
  [site |-> 105, kind |-> "ins", l |-> <<>>, r |-> <<"T","T">>, op |-> "insTT", cov |-> 12, effect |-> "frameshift", rsid |-> "rs2", cat |-> TRUE, win |-> Ref],
  [site |-> 108, kind |-> "del", l |-> <<"A","C">>, r |-> <<>>, op |-> "delAC", cov |-> 13, effect |-> "frameshift", rsid |-> "-", cat |-> TRUE, win |-> Ref],
  [site |-> 113, kind |-> "sub", l |-> <<"C","G">>, r |-> <<"T","A">>, op |-> "CG>TA", cov |-> 14, effect |-> "F114", rsid |-> "rs4", cat |-> TRUE, win |-> Ref] >>

A == [major |-> "1", minor |-> "1.001", core |-> {}, silent |-> {1}]
B == [major |-> "2", minor |-> "2.001", core |-> {2, 3}, silent |-> {}]
C == [major |-> "3", minor |-> "3.001", core |-> {4}, silent |-> {1}]
Opt(al, ad, mi) == [major |-> al.major, minor |-> al.minor, core |-> al.core, silent |-> al.silent, added |-> ad, missing |-> mi]
CopyOptions == { Opt(A, {}, {}), Opt(A, {4}, {}), Opt(A, {}, {1}), Opt(B, {}, {}), Opt(B, {1}, {3}), Opt(B, {}, {2, 3}), Opt(C, {}, {4}) }

CopySeqs == UNION {[1..n -> CopyOptions] : n \in 1..MaxCopies}
Sol(cs, j) == [sid |-> j, dipl |-> [i \in DOMAIN cs |-> cs[i].major], copies |-> cs]
SolLists == UNION {[1..m -> CopySeqs] : m \in 1..MaxSols}

MCInit ==
    /\ \E L \in SolLists : S = [j \in DOMAIN L |-> Sol(L[j], j)]
    /\ ext \in {"vcf", "simple", "aldy", "txt"}
    /\ file = [kind |-> "", blocks |-> <<>>] /\ pc = "dispatch" /\ done = 0
MCSpec == MCInit /\ [][ONext]_ovars
=============================================================================
