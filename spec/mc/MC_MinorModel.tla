--------------------------- MODULE MC_MinorModel ---------------------------
(***************************************************************************)
(* Design-level check of the minor-stage semantics (C04, last sentence):   *)
(* on noise-free evidence planted from any refinement of any major call    *)
(* the planted assignment is admissible and scores exactly 0, every        *)
(* admissible assignment scoring 0 carries the same variants with the same *)
(* multiplicities, no admissible assignment scores below 0, and the        *)
(* homozygous-fill post-processing (as repaired) keeps the per-copy rules. *)
(* Catalogue: sites 1..3; v1 core substitution (site 1), v2 silent         *)
(* substitution (site 2), v3 silent insertion (site 3), v4 silent          *)
(* substitution (site 3); majors M1 {v1}, M2 {}; minors M1.a {}, M1.b {v3},*)
(* M2.a {}, M2.b {v2}, M2.c {v2, v4}; calls of 1-2 copies; depth D.         *)
(***************************************************************************)
EXTENDS MinorModel
CONSTANT D

Vars == << [si |-> 1, ins |-> FALSE, core |-> TRUE], [si |-> 2, ins |-> FALSE, core |-> FALSE],
           [si |-> 3, ins |-> TRUE, core |-> FALSE], [si |-> 3, ins |-> FALSE, core |-> FALSE] >>
Majors == << [name |-> "M1", cfg |-> 1, core |-> <<1>>], [name |-> "M2", cfg |-> 1, core |-> <<>>] >>
Minors == << [name |-> "M1.a", major |-> 1, silent |-> <<>>], [name |-> "M1.b", major |-> 1, silent |-> <<3>>],
             [name |-> "M2.a", major |-> 2, silent |-> <<>>], [name |-> "M2.b", major |-> 2, silent |-> <<2>>],
             [name |-> "M2.c", major |-> 2, silent |-> <<2, 4>>] >>
Cfgs == << [name |-> "1", cn |-> <<1, 1, 1>>] >>
P == [thrN |-> 1, thrD |-> 2, minCov10 |-> 20, cnMax |-> 20, missPen |-> 15000, addPen |-> 10000, phasePen |-> 4000]
Calls == { <<1>>, <<2>>, <<1, 1>>, <<1, 2>>, <<2, 2>> }

VARIABLES case, planted
vars == <<case, planted>>

OpRec(name, n, ins, v) == [op |-> name, good |-> n, low |-> 0, ins |-> ins, var |-> v, tab |-> <<>>, elig |-> TRUE]
DefOf(m) == SeqToSet(Majors[Minors[m].major].core) \cup SeqToSet(Minors[m].silent)
CopiesWith(x, v) == Cardinality({k \in DOMAIN x : v \in DefOf(x[k])})
RefCopies(x, i) == Cardinality({k \in DOMAIN x : ~\E v \in DefOf(x[k]) : Vars[v].si = i /\ ~Vars[v].ins})
SiteOf(x, i) ==
    LET vs == {v \in DOMAIN Vars : Vars[v].si = i /\ CopiesWith(x, v) > 0}
    IN [pos |-> i, keepall |-> TRUE,
        ops |-> (IF RefCopies(x, i) > 0 THEN <<OpRec("_", D * RefCopies(x, i), FALSE, 0)>> ELSE <<>>)
                \o SetToSeq({OpRec("v", D * CopiesWith(x, v), Vars[v].ins, v) : v \in vs})]
MkCase(call, x) ==
    [p |-> P, sites |-> [i \in 1..3 |-> SiteOf(x, i)], vars |-> Vars, cfgs |-> Cfgs,
     struct |-> <<[cfg |-> 1, n |-> Len(call)]>>, majors |-> Majors, minors |-> Minors, call |-> call, phases |-> <<>>, nalleles |-> 1, phaseVars |-> 3000]
MinorsOfMajor(j) == {m \in DOMAIN Minors : Minors[m].major = j}
Refinements(call) == {x \in [DOMAIN call -> DOMAIN Minors] : \A k \in DOMAIN call : Minors[x[k]].major = call[k]}

Init == \E call \in Calls : \E x \in Refinements(call) : case = MkCase(call, x) /\ planted = x
Next == UNCHANGED vars
Spec == Init /\ [][Next]_vars

Dv == Derive(case)
PlantedA == [k \in DOMAIN planted |-> [minor |-> planted[k], carry |-> DefOf(planted[k])]]
Opts == [j \in SeqToSet(case.call) |-> SetToSeq(CopyOptions(case, Dv, j))]
All == {X \in AssignFrom(case, Opts, 1) : Admissible(case, Dv, X)}
VarBagOf(A) == [v \in DOMAIN Vars |-> Carriers(A, v)]
CopyOK(a) == LET j == case.minors[a.minor].major IN
             a.carry \subseteq Carriable(case, Dv, j) /\ CoreKept(case, j, a.carry) /\ OnePerSite(case, a.carry)
(* homozygous fill, as repaired: a variant observed at exactly as many copies as are called is added to every *)
(* copy that can carry it and has no other variant at that site                                                *)
Fill(A) == [k \in DOMAIN A |->
              [A[k] EXCEPT !.carry = @ \cup {v \in Dv.homo : HasCov(case, case.minors[A[k].minor].major, case.vars[v].si)
                                                          /\ ~\E w \in A[k].carry : case.vars[w].si = case.vars[v].si}]]

PlantedAdmissibleAtZero == (\A k \in DOMAIN PlantedA : CopyOK(PlantedA[k])) /\ Admissible(case, Dv, PlantedA) /\ Score(case, Dv, PlantedA) = 0
NothingBelowZero == \A X \in All : Score(case, Dv, X) >= 0
ZeroScoreCarriesPlantedVariants == \A X \in All : Score(case, Dv, X) = 0 => VarBagOf(X) = VarBagOf(PlantedA)
FillKeepsOnePerSite == \A X \in All : \A k \in DOMAIN X : OnePerSite(case, Fill(X)[k].carry)
FillOnlyAddsSupported == \A X \in All : \A k \in DOMAIN X : Fill(X)[k].carry \ X[k].carry \subseteq Dv.supp
=============================================================================
