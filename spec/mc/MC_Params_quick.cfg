CONSTANT Free = FALSE
SPECIFICATION PlanSpec
INVARIANT TakesGivenValue
INVARIANT TypedAsDocumented
INVARIANT UnknownIgnored
INVARIANT MalformedRejected
INVARIANT RoundTrip
INVARIANT ExplicitOverridesOptions
INVARIANT MatchesExpected
INVARIANT CarriesOutPlan
CHECK_DEADLOCK TRUE
