CONSTANTS
  Bin = {1, 2, 3}
  MaxObj = 2
  Gaps <- GapsQuick
  Limits = {0, 2}
SPECIFICATION MCSpec
INVARIANT YieldedFeasible
INVARIANT FirstOptimal
INVARIANT NonDecreasing
INVARIANT NoDup
INVARIANT AllWithinGap
INVARIANT NonEmptyIfFeasible
INVARIANT CompleteModuloSuperset
INVARIANT LimitRespected
