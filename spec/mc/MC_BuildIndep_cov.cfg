CONSTANT Builds <- MCBuilds
CONSTANT Strand <- MCStrand
CONSTANT Offset <- MCOffset
CONSTANT L = 24
CONSTANT Regions <- MCRegions
CONSTANT CnRegions <- MCCnRegions
CONSTANT Variants <- MCVariants
CONSTANT Configs <- MCConfigs
CONSTANT Majors <- MCMajors
CONSTANT Minors <- MCMinors
CONSTANT PCN <- MCPCN
CONSTANT PStage <- MCPStage
CONSTANT MaxCN = 3
CONSTANT Evidence <- MCEvidence
CONSTANT CountsV = {0, 10}
CONSTANT CountsR = {10}
CONSTANT DepthSel = {1, 2}
SPECIFICATION Spec
INVARIANT BuildFree
INVARIANT AnchorAgrees
INVARIANT RegionOrderIsGeneOrder
INVARIANT LocusInOneRegion
