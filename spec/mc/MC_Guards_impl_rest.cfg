CONSTANTS
  DepthGuardAlways = FALSE
  LocusByRegions = FALSE
  SimpleLineAlways = FALSE
  MaxAvg = 3
  Mins <- MCMins
SPECIFICATION Spec
INVARIANT TypeOK
INVARIANT ErrorIsExplained
INVARIANT PseudogeneOnlyIsDeletion
PROPERTY Terminates
