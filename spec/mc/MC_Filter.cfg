CONSTANT MaxN = 3
SPECIFICATION Spec
INVARIANT LowQIsStutter
INVARIANT LowInvisibleInv
INVARIANT PassMonotone
INVARIANT PassImpliesMinCov
