CONSTANTS
  DepthGuardAlways = TRUE
  LocusByRegions = TRUE
  SimpleLineAlways = TRUE
  MaxAvg = 3
  Mins <- MCMins
SPECIFICATION Spec
INVARIANT TypeOK
INVARIANT NoCallFromNoData
INVARIANT GuardedRunsFail
INVARIANT ErrorIsExplained
INVARIANT SimpleOutputEmptyLine
INVARIANT SimpleLineOnceStarted
INVARIANT PseudogeneOnlyIsDeletion
PROPERTY Terminates
