CONSTANTS
  D = 10
  Noise = 5
SPECIFICATION Spec
INVARIANT NoiseFreePlantedAtZero
INVARIANT ScoresNonNegative
INVARIANT ZeroScoreExplainsSameVariants
INVARIANT NovelNeverCarried
INVARIANT GapMonotone
