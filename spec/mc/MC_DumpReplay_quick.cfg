CONSTANT Pos <- mcPos
CONSTANT InBounds <- mcInBounds
CONSTANT MutOps <- mcMutOps
CONSTANT InsOps <- mcInsOps
CONSTANT Quals <- mcQuals
CONSTANT ParamNames <- mcParamNames
CONSTANT ResetParams <- mcResetParams
CONSTANT Default <- mcDefault
CONSTANT AliasNorm = FALSE
CONSTANT PhaseMin = 1
CONSTANT UpdateOnDump = TRUE
CONSTANT DropChoices <- NoDrop
CONSTANT OptionsMaySetReset = FALSE
CONSTANT PhaseFamily = "shallow"
SPECIFICATION Spec
INVARIANT SnapshotCoversReads
INVARIANT RestoreIsSnapshotInverse
INVARIANT SameResult
INVARIANT SameResultIffRestored
INVARIANT PhaseLemma
INVARIANT DepthsAgree
INVARIANT DropBreaks
