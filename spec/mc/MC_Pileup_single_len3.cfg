CONSTANTS
  G <- MCGene
  MaxOps = 3
  MaxLen = 3
  NReads = 1
  Mode = "single"
SPECIFICATION MCSpec
INVARIANT OperationalEqualsDeclarative
INVARIANT DepthConservation
INVARIANT SubCounts
INVARIANT SplitInvariant
INVARIANT PhaseRecordSound
INVARIANT QualityKept
INVARIANT MnpQualityKept
