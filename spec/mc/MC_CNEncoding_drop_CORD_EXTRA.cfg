\* reduced universe (M = 3, default parameters, <= 1 weak copy): without this rule the point set grows 10-20x
CONSTANTS
  Ms = {3}
  Modes = {0}
  XMax = 1
  QMax = 1
  Margin = 20000
  Drop = {"CORD_EXTRA"}
SPECIFICATION Spec
INVARIANT RuleRedundant
