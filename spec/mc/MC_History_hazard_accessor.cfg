CONSTANT Ops <- MCOps
CONSTANT AllGenes <- MCGenes
CONSTANT Failing <- MCFailing
CONSTANT Struct <- MCStruct
CONSTANT MaxLen = 4
CONSTANT Hazards <- HzAccessor
SPECIFICATION Spec
INVARIANT TypeOK
PROPERTY DbUntouched
CHECK_DEADLOCK FALSE
