SPECIFICATION Spec
CONSTANTS
  NAlt = 3
  MaxLeft = 2
  PseudoZero = FALSE
  RepairedRule = FALSE
INVARIANT StepwiseIsCatalogue
INVARIANT InvReachable
INVARIANT InvMajorsDistinctModuloKnown
INVARIANT InvCoreIffFunctional
INVARIANT InvMinorsDistinct
INVARIANT InvConfigExists
INVARIANT InvPartialKeepsRetained
INVARIANT InvConfigsDistinct
INVARIANT InvAliasesLive
