SPECIFICATION MCSpecQuick
INVARIANT SupportProportional
INVARIANT ReferenceReduced
INVARIANT NoRecordIsHomRef
INVARIANT IgnoredAreNoOps
INVARIANT RefMismatchReexpressed
INVARIANT OrderIndependent
INVARIANT OperationalIsFinal
INVARIANT Conserved
INVARIANT HetIsRefSlashAllele
PROPERTY IgnoredStepNoOp
