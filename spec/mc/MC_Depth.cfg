CONSTANTS
  G <- MCGene
  MaxReads = 4
  Ks = {2, 3}
  NeutralHi = 12
SPECIFICATION MCSpec
INVARIANT InvForms
INVARIANT InvScale
INVARIANT InvGeneLinear
INVARIANT InvSelfTwo
INVARIANT InvStructure
INVARIANT InvEmptyNeutral
INVARIANT OutMatchesNorm
