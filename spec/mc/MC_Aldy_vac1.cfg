CONSTANTS
  MaxAvg = 3
  Mins = {2}
SPECIFICATION Spec
INVARIANT NeverTwoReported
