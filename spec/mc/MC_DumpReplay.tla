--------------------------- MODULE MC_DumpReplay ---------------------------
(***************************************************************************)
(* C17, design level.  Small exhaustive universe:                          *)
(*   positions 1 (inside the RefSeq range) and 2 (outside: pseudogene),    *)
(*   ops: substitution "A>C", deleted base "-", insertion "insT",          *)
(*   two quality pairs, bags of size <= 2,                                 *)
(*   phase records over sites 1..3 with ops {"_", "v"}, sequences <= 2     *)
(*   (+ all sequences of 3 records with <= 2 sites each in the thorough    *)
(*   configuration), parameters gap / display_format (reset on load),      *)
(*   profile options, user parameters, two values for every other field.   *)
(* Samples vary one aspect at a time (coverage / phases / parameters /     *)
(* scalar fields) around a representative sample.                          *)
(* Configurations:                                                         *)
(*   MC_DumpReplay.cfg          repaired writer (AliasNorm = FALSE): all    *)
(*                              invariants hold                            *)
(*   MC_DumpReplay_drop.cfg     a writer that omits any ONE component:     *)
(*                              DropBreaks holds (every omission of an     *)
(*                              exercised component changes the result)    *)
(*   MC_DumpReplay_asis.cfg     code as is (AliasNorm = TRUE): TLC finds    *)
(*                              the counterexample of RestoreIsSnapshot-   *)
(*                              Inverse (deleted base outside the RefSeq   *)
(*                              range counted twice)                       *)
(*   MC_DumpReplay_phase2.cfg   `len(v) > 2`: PhaseView not restored        *)
(*   MC_DumpReplay_options.cfg  profile options may set a reset parameter: *)
(*                              params not restored                        *)
(*   MC_DumpReplay_noupdate.cfg profile.update(params) skipped for dumps   *)
(***************************************************************************)
EXTENDS DumpReplay

CONSTANTS DropChoices, OptionsMaySetReset, PhaseFamily

mcPos == {1, 2, 3}
mcInBounds == {1}
mcMutOps == {"A>C", "-", "insT"}
mcInsOps == {"insT"}
mcQuals == {"hi", "lo"}
mcParamNames == {"gap", "display_format"}
mcResetParams == {"display_format"}
mcDefault == [gap |-> 0, display_format |-> 0]

Bags == {b \in [mcQuals -> 0..2] : b["hi"] + b["lo"] <= 2}
E == [q \in mcQuals |-> 0]
One == [q \in mcQuals |-> IF q = "hi" THEN 1 ELSE 0]

\* representative values
norm0 == [p \in mcPos |-> One]
muts0 == [k \in mcPos \X mcMutOps |-> E]
ph0 == <<[name |-> <<"f", 1>>, sites |-> (1 :> "_" @@ 2 :> "v")], [name |-> <<"f", 2>>, sites |-> (1 :> "_")]>>
indels0 == (<<1, "delA">> :> <<2, 1>>)
base == [name |-> "samp", genome |-> "hg38", options |-> <<>>, pdata |-> "profile", cn |-> (7 :> 2 @@ 8 :> 1),
         norm |-> norm0, muts |-> muts0, phases |-> ph0, fusion |-> ("f" :> <<1, 2>>), indels |-> indels0]

\* coverage family: every norm bag at positions 1, 2 and every bag for (1, A>C), (2, "-"), (2, insT), (1, insT);
\* with and without catalogued indels
CovFamily ==
    {[base EXCEPT !.norm = [p \in mcPos |-> IF p = 1 THEN n1 ELSE IF p = 2 THEN n2 ELSE E],
                  !.muts = [k \in mcPos \X mcMutOps |->
                              IF k = <<1, "A>C">> THEN m1 ELSE IF k = <<2, "-">> THEN m2
                              ELSE IF k = <<2, "insT">> THEN m3 ELSE E],
                  !.indels = ind]
        : n1 \in Bags, n2 \in Bags, m1 \in Bags, m2 \in Bags, m3 \in {E, One}, ind \in {<<>>, indels0}}

\* phase family
SiteMaps == UNION {[D -> {"_", "v"}] : D \in SUBSET mcPos}
SmallMaps == {m \in SiteMaps : Cardinality(DOMAIN m) <= 2}
Rec(i, m) == [name |-> <<"f", i>>, sites |-> m]
PhaseSeqs ==
    {<<>>} \cup {<<Rec(1, a)>> : a \in SiteMaps} \cup {<<Rec(1, a), Rec(2, b)>> : a \in SiteMaps, b \in SiteMaps}
    \cup (IF PhaseFamily = "deep" THEN {<<Rec(1, a), Rec(2, b), Rec(3, c)>> : a \in SmallMaps, b \in SmallMaps, c \in SmallMaps} ELSE {})
PhFamily == {[base EXCEPT !.phases = ph] : ph \in PhaseSeqs}

\* parameter family: options of the profile file
OptMaps == UNION {[D -> {0, 1}] : D \in SUBSET (IF OptionsMaySetReset THEN mcParamNames ELSE mcParamNames \ mcResetParams)}
ParFamily == {[base EXCEPT !.options = o] : o \in OptMaps}
UserMaps == UNION {[D -> {0, 1}] : D \in SUBSET mcParamNames}

\* scalar fields: blank-like and other values
ScalarFamily ==
    {[base EXCEPT !.name = n, !.genome = g, !.pdata = pd, !.cn = c, !.fusion = fu, !.indels = ind]
        : n \in {"samp", "ARCHIVE"}, g \in {"hg19", "hg38"}, pd \in {"profile", "none"}, c \in {(7 :> 2 @@ 8 :> 1), (7 :> 0 @@ 8 :> 0)},
          fu \in {<<>>, ("f" :> <<1, 2>>)}, ind \in {<<>>, indels0, (<<1, "delA">> :> <<0, 0>>)}}

Samples == CovFamily \cup PhFamily \cup ParFamily \cup ScalarFamily

Init ==
    /\ pc = "start" /\ sample \in Samples
    /\ user \in (IF sample \in ParFamily THEN UserMaps ELSE {<<>>, [gap |-> 1]})
    /\ dropped \in DropChoices
    /\ evidence = Nil /\ dump = Nil /\ res1 = Nil /\ evidence2 = Nil /\ res2 = Nil
Spec == Init /\ [][Next]_vars

NoDrop == {{}}
SingleDrops == {{f} : f \in DumpFields}
=============================================================================
