CONSTANTS
  MaxSols = 2
  MaxCopies = 3
  bug = "none"
  VT <- Tab
SPECIFICATION MCSpec
INVARIANT InvDispatch
INVARIANT InvParseBack
INVARIANT InvAllWritten
INVARIANT InvSimple
INVARIANT InvParseBackVcf
INVARIANT InvSpelling
INVARIANT InvVcfItems
INVARIANT InvDecompItems
