CONSTANTS
  D = 20
  Copies = 3
  Pens = {210000, 0}
  Margin = 50
  Drop = {"CAND"}
SPECIFICATION Spec
INVARIANT RuleRedundant
