CONSTANT Ops <- MCOps
CONSTANT AllGenes <- MCGenes
CONSTANT Failing <- MCFailing
CONSTANT Struct <- MCStruct
CONSTANT MaxLen = 4
CONSTANT Hazards <- HzTieBreak
SPECIFICATION Spec
INVARIANT TypeOK
PROPERTY Deterministic
CHECK_DEADLOCK FALSE
