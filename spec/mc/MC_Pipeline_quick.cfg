CONSTANT Gaps = {1000}
SPECIFICATION MCSpec
INVARIANT ReportIsArgminBand
INVARIANT BestFirst
INVARIANT NoDupReport
INVARIANT ErrorMeansNoReport
INVARIANT ReportMeansAllStagesNonEmpty
INVARIANT CarryOver
INVARIANT RefinedOnlyFromSelected
INVARIANT BestStructureFirst
