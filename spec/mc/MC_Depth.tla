------------------------------ MODULE MC_Depth ------------------------------
(* Bounded exhaustive check of Depth.  A 12-base line: gene regions A = [2,5), B = [5,7), pseudogene   *)
(* region C = [7,9), wide gene region [2,9); neutral region [10,12) or the EMPTY region [10,10)        *)
(* (cfg constant NeutralHi in {12, 10}).  Read pool: 7 shapes (2M, 4M, 1M1D2M, 1M1I1M, 1S2M, 2M1H,      *)
(* supplementary 3M) x starts {1,3,5,7,9,10} (reads straddle every region bound and both ends of the  *)
(* neutral interval).  Every multiset of <= MaxReads pool reads as the sample; the profile is the     *)
(* sample itself or a fixed two-read profile; k in Ks.                                                *)
EXTENDS Depth, SequencesExt
CONSTANTS MaxReads, Ks, NeutralHi

MCGene == [len |-> 12, ref |-> <<0, 0, 0, 0, 0, 0, 0, 0, 0, 0, 0, 0>>, mapped |-> <<<<2, 6>>>>, wide |-> <<2, 9>>,
           mnps |-> <<>>, phase |-> <<0, 0, 0, 0, 0, 0, 0, 0, 0, 0, 0, 0>>,
           regions |-> <<[g |-> 0, name |-> 1, lo |-> 2, hi |-> 5], [g |-> 0, name |-> 2, lo |-> 5, hi |-> 7],
                         [g |-> 1, name |-> 1, lo |-> 7, hi |-> 9]>>]
Shapes == {<<<<0, 2>>>>, <<<<0, 4>>>>, <<<<0, 1>>, <<2, 1>>, <<0, 2>>>>, <<<<0, 1>>, <<1, 1>>, <<0, 1>>>>,
           <<<<4, 1>>, <<0, 2>>>>, <<<<0, 2>>, <<5, 1>>>>}
Mk(c, st, supp) == [name |-> "r", start |-> st, cigar |-> c, seq |-> [i \in 1..QLen(c) |-> 0], qual |-> [i \in 1..QLen(c) |-> 40],
                    mapq |-> 60, unmapped |-> FALSE, supp |-> supp, secondary |-> FALSE, dup |-> FALSE, oncontig |-> TRUE, mult |-> 1]
Pool == {Mk(c, st, FALSE) : c \in Shapes, st \in {1, 3, 5, 7, 9, 10}} \cup {Mk(<<<<0, 3>>>>, st, TRUE) : st \in {1, 3, 5, 7, 9, 10}}
PoolSeq == SetToSeq(Pool)
NP == Len(PoolSeq)
FixedProfile == <<Mk(<<<<0, 6>>>>, 1, FALSE), Mk(<<<<0, 6>>>>, 7, FALSE)>>

(* the multiset is built one read at a time (non-decreasing pool indices) so TLC's workers share the work *)
VARIABLE idx
mcvars == <<dvars, idx>>
MCInit == /\ sam = <<>> /\ prof = <<>> /\ idx = <<>> /\ cnr = <<10, NeutralHi>>
          /\ dpc = "build" /\ pdata = [p |-> <<>>, nv |-> 0] /\ out = [err |-> FALSE, v |-> <<>>]
AddRead == /\ dpc = "build" /\ Len(idx) < MaxReads
           /\ \E x \in (IF idx = <<>> THEN 1 ELSE idx[Len(idx)])..NP :
                 idx' = Append(idx, x) /\ sam' = Append(sam, PoolSeq[x])
           /\ UNCHANGED <<prof, cnr, dpc, pdata, out>>
Go == /\ dpc = "build" /\ dpc' = "start"
      /\ prof' \in {sam, FixedProfile}
      /\ UNCHANGED <<sam, cnr, pdata, out, idx>>
MCNext == AddRead \/ Go \/ (DNext /\ UNCHANGED idx)
MCSpec == MCInit /\ [][MCNext]_mcvars

InvForms == dpc = "start" => OverlapFormEqualsSiteSum(sam, cnr) /\ OverlapFormEqualsSiteSum(prof, cnr)
InvScale == dpc = "start" => \A kk \in Ks : ScaleInvariant(sam, prof, cnr, kk)
InvGeneLinear == dpc = "start" => \A kk \in Ks : GeneLinear(sam, prof, cnr, kk)
InvSelfTwo == dpc = "start" => SelfProfileIsTwo(sam, cnr) /\ SelfProfileGeneral(sam, cnr)
InvStructure == dpc = "start" => \A kk \in Ks : StructureDepthFree(sam, prof, cnr, kk)
InvEmptyNeutral == (dpc = "done" /\ cnr[1] = cnr[2]) => out.err
=============================================================================
