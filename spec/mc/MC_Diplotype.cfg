CONSTANTS
  Nums = {1, 2, 4, 13}
  Sufs = {0, 3}
  MaxN = 6
  TandemChoices <- TC_distinct
  Fix = FALSE
  DelKey = 5
SPECIFICATION MCSpec
INVARIANT Completes
INVARIANT Conserved
INVARIANT InvEachCopyOnce
INVARIANT InvBothNonEmpty
INVARIANT InvDeletionShown
INVARIANT InvTandemsAdjacent
INVARIANT InvNaturalOrder
INVARIANT InvTandemUnitsInOrder
INVARIANT InvOrderFree12
INVARIANT InvArrangeIsMachine
