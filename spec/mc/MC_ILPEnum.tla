---------------------------- MODULE MC_ILPEnum ----------------------------
(* Exhaustive: ALL models over |Bin| binaries with objective values 0..MaxObj, every  *)
(* tie-breaking choice of the solver, gaps in Gaps, limits in Limits.                *)
(* Constants in MC_ILPEnum.cfg: Bin={1,2,3}, MaxObj=2 (65,536 models per gap/limit).   *)
EXTENDS ILPEnum
CONSTANTS MaxObj, Limits, Gaps
GapsAll   == {<<0, 1>>, <<1, 10>>, <<1, 2>>}   \* gap in {0, 0.1, 0.5}
GapsQuick == {<<1, 2>>}

MCInit ==
    /\ feas \in SUBSET (SUBSET Bin)
    /\ obj \in [feas -> 0..MaxObj]
    /\ \E g \in Gaps : gapN = g[1] /\ gapD = g[2]
    /\ limit \in Limits
    /\ Start

MCSpec == MCInit /\ [][Next]_vars /\ WF_vars(Next)
=============================================================================
