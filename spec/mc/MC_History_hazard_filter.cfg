CONSTANT Ops <- MCOps
CONSTANT AllGenes <- MCGenes
CONSTANT Failing <- MCFailing
CONSTANT Struct <- MCStruct
CONSTANT MaxLen = 4
CONSTANT Hazards <- HzFilter
SPECIFICATION Spec
INVARIANT TypeOK
PROPERTY RefinementIndependent
CHECK_DEADLOCK FALSE
