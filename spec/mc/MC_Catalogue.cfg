SPECIFICATION Spec
CONSTANTS
  NAlt = 4
  MaxLeft = 1
  PseudoZero = TRUE
  RepairedRule = FALSE
INVARIANT StepwiseIsCatalogue
INVARIANT InvReachable
INVARIANT InvMajorsDistinct
INVARIANT InvCoreIffFunctional
INVARIANT InvMinorsDistinct
INVARIANT InvConfigExists
INVARIANT InvPartialKeepsRetained
INVARIANT InvConfigsDistinct
INVARIANT InvAliasesLive
