---------------------------- MODULE MC_Diplotype ----------------------------
(***************************************************************************)
(* Bounded exhaustive check of the arrangement heuristic (Diplotype.tla)   *)
(* against the C11 postconditions.                                         *)
(*                                                                         *)
(* Universe: alleles Nums x Sufs (number group x {no letter, one letter}), *)
(* e.g. *1 *1C *2 *2C *4 *4C *13 *13C; EVERY SEQUENCE (= every bag in      *)
(* every order) of 0..MaxN alleles; every tandem list in TandemChoices;    *)
(* gene with / without a deletion allele (the heuristic reads that only    *)
(* when fewer than two copies are called, so it is varied for n <= 2).     *)
(*   MC_Diplotype.cfg        MaxN = 6  TC_distinct   Fix = FALSE           *)
(*   MC_Diplotype_quick.cfg  MaxN = 4  TC_distinct   Fix = FALSE           *)
(*   MC_Diplotype_same_crash.cfg, _same_once.cfg  MaxN = 4 TC_same -> are *)
(*       EXPECTED TO FAIL (same-number tandem pairs a copy with itself)    *)
(*   MC_Diplotype_fixed.cfg  MaxN = 4/5 TC_all       Fix = TRUE (repair)   *)
(***************************************************************************)
EXTENDS Diplotype
CONSTANTS Nums, Sufs, MaxN, TandemChoices, Fix, DelKey

TC_distinct == { <<>>, << <<13, 1>> >>, << <<1, 4>> >>, << <<13, 1>>, <<1, 4>> >> }
TC_same     == { << <<2, 2>> >>, << <<2, 2>>, <<13, 1>> >> }
TC_all      == TC_distinct \cup TC_same

Alle == Nums \X Sufs
Copy(a) == [key |-> a[1], tok |-> IF a[2] = 0 THEN <<0, a[1]>> ELSE <<0, a[1], a[2]>>]
Inputs == UNION {[1..k -> Alle] : k \in 0..MaxN}

MCInit ==
    \E s \in Inputs, T \in TandemChoices, h \in BOOLEAN :
        /\ h => Len(s) <= 2
        /\ in = [copies |-> [j \in DOMAIN s |-> Copy(s[j])], tandems |-> T,
                 del |-> [has |-> h, key |-> DelKey, tok |-> <<0, DelKey>>], fix |-> Fix]
        /\ st = St0 /\ pc = "Group" /\ res = <<>>

MCSpec == MCInit /\ [][Next]_vars
=============================================================================
