CONSTANT Ops <- MCOps
CONSTANT AllGenes <- MCGenes
CONSTANT Failing <- MCFailing
CONSTANT Struct <- MCStruct
CONSTANT MaxLen = 4
CONSTANT Hazards <- NoHazards
SPECIFICATION Spec
INVARIANT TypeOK
INVARIANT EqualsFreshLoad
PROPERTY Deterministic
PROPERTY DbUntouched
PROPERTY EvUntouched
PROPERTY MultiIsUnionOfSingles
PROPERTY RefinementIndependent
PROPERTY StoreIsWriteOnly
CHECK_DEADLOCK FALSE
