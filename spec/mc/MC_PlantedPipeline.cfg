CONSTANT Gaps = {0, 1000, 3000}
SPECIFICATION MCSpec
INVARIANT PlantedMajorSelected
INVARIANT PlantedFinalZero
INVARIANT PlantedReported
INVARIANT PlantedFirst
INVARIANT NoErrorPastPlanted
