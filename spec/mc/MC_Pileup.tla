----------------------------- MODULE MC_Pileup -----------------------------
(* Bounded exhaustive check of Pileup.                                                     *)
(* Gene: 8 reference bases A C A C A A C A; positions 1..7 are RefSeq-mapped, position 8 is *)
(* not; the wide gene region is [-100, 8) (so a read starting at 8 abuts it, one starting   *)
(* at 9 is outside); substitution site 3 (A>C), multi-nucleotide substitution AA>CC at 5-6. *)
(* Reads (pool "single"): every CIGAR of <= MaxOps operations over {M,I,D,S,H,=,X} with     *)
(* lengths 1..MaxLen, starts in Starts, four base patterns over a 2-letter alphabet (each   *)
(* aligned base is the reference base or "the other letter"), plain flags;                  *)
(*   + every CIGAR of <= 2 operations (lengths 1..2) at the region edge (starts 8, 9) and   *)
(*     with every flag case (secondary, supplementary, duplicate, unmapped, no sequence,    *)
(*     other contig), two quality classes (all 40 / the bin edges 1,2,9,10,19,20,28,29,38,39).*)
(* Pool "multi": a hand-picked set of read shapes, 2 fragment names; Init takes every       *)
(* sequence of NReads of them (so every order).                                             *)
(* cfg constants: MaxOps, MaxLen, NReads, Mode: "single" | "single4" (start 4, patterns 1-2 only: *)
(* used for the 4-operation CIGARs) | "multi" | "multi3" (3 reads of a 26-read sub-pool).         *)
EXTENDS Pileup, Json, IOUtils, SequencesExt

CONSTANTS MaxOps, MaxLen, NReads, Mode

MCGene == [len |-> 8, ref |-> <<0, 1, 0, 1, 0, 0, 1, 0>>, mapped |-> <<<<1, 7>>>>, wide |-> <<0 - 100, 8>>,
           mnps |-> <<[pos |-> 5, offs |-> <<0, 1>>, ref |-> <<0, 0>>, alt |-> <<1, 1>>]>>,
           phase |-> <<0, 0, 1, 0, 1, 0, 0, 0>>]

Ops == {0, 1, 2, 4, 5, 7, 8}
CigarsOf(n, L) == UNION {[1..m -> Ops \X (1..L)] : m \in 1..n}
Starts == {1, 4, 7}
Masks == 0..3
EdgeQ == <<1, 2, 9, 10, 19, 20, 28, 29, 38, 39>>

OtherBase(b) == IF b = 0 THEN 1 ELSE 0
(* the query base at index qi: aligned M/=/X bases follow the mask, everything else is G *)
BasesOf(c, st, mask) ==
    [qi \in 1..QLen(c) |->
        LET j == CHOOSE x \in DOMAIN c : QPrefix(c, x - 1) < qi /\ qi <= QPrefix(c, x) IN
        IF c[j][1] \in MT
          THEN LET s == st + RefPrefix(c, j - 1) + (qi - QPrefix(c, j - 1) - 1)
                   rb == IF RefAt(s) = 4 THEN 0 ELSE RefAt(s)
                   alt == CASE mask = 0 -> FALSE [] mask = 1 -> TRUE [] mask = 2 -> qi % 2 = 1 [] OTHER -> qi % 2 = 0
               IN IF alt THEN OtherBase(rb) ELSE rb
          ELSE 2]
QualOf(c, qc) == [qi \in 1..QLen(c) |-> IF qc = 1 THEN 40 ELSE EdgeQ[(qi % 10) + 1]]
MkRead(c, st, mask, qc, fl, nm) ==
    [name |-> nm, start |-> st, cigar |-> c,
     seq |-> IF fl = "noseq" THEN <<>> ELSE BasesOf(c, st, mask),
     qual |-> IF fl = "noseq" THEN <<>> ELSE QualOf(c, qc),
     mapq |-> IF qc = 1 THEN 60 ELSE 29,
     unmapped |-> fl = "unmapped", supp |-> fl = "supp", secondary |-> fl = "secondary", dup |-> fl = "dup",
     oncontig |-> fl # "offcontig"]
Flags == {"plain", "secondary", "supp", "dup", "unmapped", "noseq", "offcontig"}

MultiShapes == {
    <<<<0, 3>>>>, <<<<0, 2>>, <<2, 2>>, <<0, 2>>>>, <<<<0, 2>>, <<1, 1>>, <<0, 2>>>>, <<<<4, 1>>, <<0, 3>>>>,
    <<<<0, 3>>, <<5, 1>>>>, <<<<7, 2>>, <<8, 1>>, <<7, 1>>>>, <<<<2, 1>>, <<0, 2>>>>, <<<<1, 2>>, <<0, 1>>>>,
    <<<<0, 5>>>> }
PoolMulti ==
    {MkRead(c, st, m, qc, "plain", nm) : c \in MultiShapes, st \in {2, 5}, m \in {0, 1}, qc \in {1}, nm \in {1, 2}}
    \cup {MkRead(<<<<0, 3>>>>, 3, 1, 2, fl, 1) : fl \in {"supp", "secondary", "unmapped"}}
    \cup {MkRead(<<<<0, 3>>>>, st, 1, 2, "plain", 2) : st \in {8, 9}}

(* The read under test is built step by step (one CIGAR operation per step, then start/pattern/  *)
(* flags) so that TLC's workers share the enumeration; invariants are trivial while building.   *)
VARIABLE build
mcvars == <<vars, build>>
MCInit == reads = <<>> /\ build = <<>> /\ Start
PoolMulti3 ==
    {MkRead(c, st, m, 1, "plain", IF st = 2 THEN 1 ELSE 2) :
        c \in {<<<<0, 3>>>>, <<<<0, 2>>, <<2, 2>>, <<0, 2>>>>, <<<<0, 2>>, <<1, 1>>, <<0, 2>>>>, <<<<4, 1>>, <<0, 3>>>>,
               <<<<7, 2>>, <<8, 1>>, <<7, 1>>>>, <<<<0, 5>>>>}, st \in {2, 5}, m \in {0, 1}}
    \cup {MkRead(<<<<0, 3>>>>, 3, 1, 2, "supp", 1), MkRead(<<<<0, 3>>>>, 8, 1, 2, "plain", 2)}
Single == Mode \in {"single", "single4"}
AddOp ==
    /\ Single /\ reads = <<>> /\ Len(build) < MaxOps
    /\ \E o \in Ops, l \in 1..MaxLen : build' = Append(build, <<o, l>>)
    /\ UNCHANGED vars
Small(c) == Len(c) <= 2 /\ \A j \in DOMAIN c : c[j][2] <= 2
Pick ==
    /\ Single /\ reads = <<>> /\ Len(build) >= 1
    /\ \/ \E st \in (IF Mode = "single4" THEN {4} ELSE Starts), m \in (IF Mode = "single4" THEN {1, 2} ELSE Masks) :
              reads' = <<MkRead(build, st, m, 1, "plain", 1)>>
       \/ /\ Small(build) /\ Mode = "single"
          /\ \/ \E st \in {8, 9}, m \in {0, 1}, qc \in {1, 2} : reads' = <<MkRead(build, st, m, qc, "plain", 1)>>
             \/ \E m \in {1, 2}, qc \in {1, 2}, fl \in Flags : reads' = <<MkRead(build, 4, m, qc, fl, 1)>>
    /\ build' = <<>>
    /\ UNCHANGED <<nd, pc, k, w, table, phases>>
AddRead ==
    /\ Mode \in {"multi", "multi3"} /\ Len(reads) < NReads /\ nd = 0 /\ pc = "idle"
    /\ \E r \in (IF Mode = "multi3" THEN PoolMulti3 ELSE PoolMulti) : reads' = Append(reads, r)
    /\ UNCHANGED <<nd, pc, k, w, table, phases, build>>
Ready == Len(reads) > 0 /\ (~Single => Len(reads) = NReads)
MCNext == AddOp \/ Pick \/ AddRead \/ (Ready /\ Next /\ UNCHANGED build)
MCSpec == MCInit /\ [][MCNext]_mcvars
(* every read Pick can produce is a member of PoolSingle and vice versa (same generators) *)

=============================================================================
