-------------------------- MODULE MC_MinorEncoding --------------------------
(***************************************************************************)
(* Bounded check of the minor-stage ENCODING layer against the semantic    *)
(* layer (C04; DESIGN 3.1, 3.2 (C)).                                        *)
(*                                                                          *)
(* Universe (fixed catalogue, realised as a real gene by                    *)
(* harness/checks/enc.py): sites 1 (lost by the fused allele), 2, 3;        *)
(* considered variants v1 (core substitution, site 3), v2, v3 (silent       *)
(* substitutions sharing site 1), v4 (silent insertion, site 2); major A    *)
(* (default structure, no core variant) with minors A1 {} and A2 {v2,v4};   *)
(* major B (left fusion, core {v1}) with minors B1 {} and B2 {v3,v4} (v3    *)
(* lies in the region B lost); all four variants are also listed as         *)
(* "random" variants, i.e. considered whatever the call.  Calls of          *)
(* 1..Copies copies over {A, B}.                                            *)
(* A plan = a call + per copy a minor allele + (Extras) at most ONE copy     *)
(* with one extra variant; evidence = D reads per copy planted from the     *)
(* plan, then one variation of a family in Families (explored in ascending  *)
(* order so that witnesses prefer the default depth regime):                *)
(*   1  D = 20: one op (a variant or the reference of a site) zeroed,       *)
(*      -D/2, +D/2 or +D reads                                              *)
(*   2  D = 20 with a fragment phase pattern: mode 1 (patterns planted from *)
(*      the copies), 2 ("v2 at site 1, reference at site 2"), 3 ("v2 at     *)
(*      site 1, v4 at site 2")                                              *)
(*   3  D = 20, phase mode 1 or 2, plus a half-copy perturbation            *)
(*   4  D = 1 with min_coverage 1 (sparse depth): one op -1 read            *)
(* Drop = {}  : invariant Refines = EncodingRefinesSemantics on every case.  *)
(* Drop = {K} : invariant RuleRedundant; a counterexample is an input on     *)
(*   which, without K, the optimal score changes or NO optimal assignment is *)
(*   shared with the semantic layer (strong: a single reported solution      *)
(*   must differ); printed <<"V","WITNESS",Drop,call,D,evidence,phases,      *)
(*   optimal, optimal without K>>.  Inputs on which only the SETS of         *)
(*   optimal assignments differ are printed with tag "WEAK" and do not       *)
(*   violate the invariant.                                                  *)
(***************************************************************************)
EXTENDS MinorEncoding, TLCExt
CONSTANTS Copies, Extras, Families, Margin

MVars == << [si |-> 3, ins |-> FALSE, core |-> TRUE], [si |-> 1, ins |-> FALSE, core |-> FALSE],
            [si |-> 1, ins |-> FALSE, core |-> FALSE], [si |-> 2, ins |-> TRUE, core |-> FALSE] >>
MCfgs == << [name |-> "1", cn |-> <<1, 1, 1>>], [name |-> "f", cn |-> <<0, 1, 1>>] >>
Majors == << [name |-> "A", cfg |-> 1, core |-> <<>>], [name |-> "B", cfg |-> 2, core |-> <<1>>] >>
Minors == << [name |-> "A1", major |-> 1, silent |-> <<>>], [name |-> "A2", major |-> 1, silent |-> <<2, 4>>],
             [name |-> "B1", major |-> 2, silent |-> <<>>], [name |-> "B2", major |-> 2, silent |-> <<3, 4>>] >>
Calls == {cl \in {<<1>>, <<2>>, <<1, 1>>, <<1, 2>>, <<2, 2>>} : Len(cl) <= Copies}
Par(D) == [thrN |-> 1, thrD |-> 2, minCov10 |-> IF D = 1 THEN 10 ELSE 20, cnMax |-> 20,
           missPen |-> 15000, addPen |-> 10000, phasePen |-> 4000]

VARIABLES stage, info, case
vars == <<stage, info, case>>

CnOf(j, i) == MCfgs[Majors[j].cfg].cn[i]
DefOf(m) == SeqToSet(Majors[Minors[m].major].core) \cup SeqToSet(Minors[m].silent)
(* a planted copy: [minor, extra]; what it physically carries = definition + extra, where it has gene copies *)
Carried(cp) == {v \in DefOf(cp.minor) \cup cp.extra : CnOf(Minors[cp.minor].major, MVars[v].si) > 0}
ExtraOK(m, X) ==
    /\ X \cap DefOf(m) = {}
    /\ \A v \in X : /\ CnOf(Minors[m].major, MVars[v].si) > 0
                    /\ ~\E w \in DefOf(m) : MVars[w].si = MVars[v].si
CopyPlans(j, withExtra) ==
    {[minor |-> m, extra |-> X] : m \in {mm \in DOMAIN Minors : Minors[mm].major = j},
                                   X \in IF withExtra THEN {{v} : v \in DOMAIN MVars} ELSE {{}}}
RECURSIVE PlansFrom(_, _, _)
PlansFrom(cl, k, extraLeft) ==      \* sequences of copy plans; at most one copy gets an extra variant
    IF k > Len(cl) THEN {<<>>}
    ELSE {<<cp>> \o rest : cp \in {q \in CopyPlans(cl[k], FALSE) : TRUE}, rest \in PlansFrom(cl, k + 1, extraLeft)}
         \cup (IF extraLeft
               THEN {<<cp>> \o rest : cp \in {q \in CopyPlans(cl[k], TRUE) : ExtraOK(q.minor, q.extra)},
                                      rest \in PlansFrom(cl, k + 1, FALSE)}
               ELSE {})
Plans(cl) == PlansFrom(cl, 1, Extras)

Pos0(n) == IF n < 0 THEN 0 ELSE n
OpRec(name, n, ins, v) == [op |-> name, good |-> n, low |-> 0, ins |-> ins, var |-> v, tab |-> <<>>, elig |-> TRUE]
SiteOf(pl, i, D, bump) ==
    LET cnt(v) == Pos0(D * Cardinality({k \in DOMAIN pl : v \in Carried(pl[k])}) + (IF bump[1] = v THEN bump[2] ELSE 0))
        refc == Cardinality({k \in DOMAIN pl : /\ CnOf(Minors[pl[k].minor].major, i) > 0
                                                /\ ~\E v \in Carried(pl[k]) : MVars[v].si = i /\ ~MVars[v].ins})
        ref == Pos0(D * refc + (IF bump[1] = 10 + i THEN bump[2] ELSE 0))
        vs == {v \in DOMAIN MVars : MVars[v].si = i /\ cnt(v) > 0}
    IN [pos |-> i, keepall |-> TRUE,
        ops |-> <<OpRec("_", ref, FALSE, 0)>> \o SetToSeq({OpRec("v", cnt(v), MVars[v].ins, v) : v \in vs})]
(* fragment patterns *)
ShownBy(cp, i) == LET S == {v \in Carried(cp) : MVars[v].si = i} IN IF S = {} THEN 0 ELSE CHOOSE v \in S : TRUE
PatternOf(cp) ==
    LET S == {i \in 1..3 : CnOf(Minors[cp.minor].major, i) > 0}
    IN [cnt |-> 4, at |-> [k \in 1..Cardinality(S) |-> [si |-> SetToSeq(S)[k], var |-> ShownBy(cp, SetToSeq(S)[k])]]]
PhasesOf(pl, mode) ==
    IF mode = 0 THEN <<>>
    ELSE IF mode = 1 THEN SetToSeq({PatternOf(pl[k]) : k \in DOMAIN pl})
    ELSE IF mode = 2 THEN << [cnt |-> 4, at |-> <<[si |-> 1, var |-> 2], [si |-> 2, var |-> 0]>>] >>
    ELSE << [cnt |-> 4, at |-> <<[si |-> 1, var |-> 2], [si |-> 2, var |-> 4]>>] >>
StructOfCall(cl) ==
    LET n1 == Cardinality({k \in DOMAIN cl : cl[k] = 1})
        n2 == Cardinality({k \in DOMAIN cl : cl[k] = 2})
    IN (IF n1 > 0 THEN <<[cfg |-> 1, n |-> n1]>> ELSE <<>>) \o (IF n2 > 0 THEN <<[cfg |-> 2, n |-> n2]>> ELSE <<>>)
MkCase(cl, pl, var) ==
    [p |-> Par(var.D), sites |-> [i \in 1..3 |-> SiteOf(pl, i, var.D, var.bump)], vars |-> MVars, cfgs |-> MCfgs,
     struct |-> StructOfCall(cl), majors |-> Majors, minors |-> Minors, call |-> cl, phases |-> PhasesOf(pl, var.ph)]

Targets == {1, 2, 3, 4, 11, 12, 13}
(* families of variations: 1 = D 20, no phase, every single-op perturbation; 2 = D 20, phase modes, no      *)
(* perturbation; 3 = D 20, planted phase + half-copy perturbations; 4 = sparse depth (D 1)                   *)
VariationsOf(f) ==
    IF f = 1 THEN {[D |-> 20, ph |-> 0, bump |-> b] : b \in {<<0, 0>>} \cup {<<t, s>> : t \in Targets, s \in {-60, -10, 10, 20}}}
    ELSE IF f = 2 THEN {[D |-> 20, ph |-> m, bump |-> <<0, 0>>] : m \in {1, 2, 3}}
    ELSE IF f = 3 THEN {[D |-> 20, ph |-> m, bump |-> <<t, s>>] : m \in {1, 2}, t \in {2, 4, 11, 12}, s \in {-10, 10}}
    ELSE {[D |-> 1, ph |-> 0, bump |-> b] : b \in {<<0, 0>>} \cup {<<t, -1>> : t \in Targets}}

(* families are explored in ascending order, so witnesses prefer the default depth regime *)
Init == \E f \in Families : \E cl \in Calls : \E pl \in Plans(cl) :
            /\ stage = "plan" /\ case = <<>>
            /\ info = [fam |-> f, call |-> cl, plan |-> pl, var |-> [D |-> 0, ph |-> 0, bump |-> <<0, 0>>]]
Next == /\ stage = "plan"
        /\ \E v \in VariationsOf(info.fam) : /\ stage' = "case"
                                 /\ info' = [info EXCEPT !.var = v]
                                 /\ case' = MkCase(info.call, info.plan, v)
Spec == Init /\ [][Next]_vars

Refines == stage = "case" => EncodingRefinesSemantics(case)

Opt(T) == IF T = {} THEN {} ELSE {t \in T : t[2] = Best(T)}
Flat(T) == {<<{<<r[1].minor, r[1].carry, r[2]>> : r \in t[1]}, t[2]>> : t \in T}
Evidence(c) == [i \in DOMAIN c.sites |-> [k \in DOMAIN c.sites[i].ops |-> <<c.sites[i].ops[k].var, c.sites[i].ops[k].good>>]]
PhasesFlat(c) == [q \in DOMAIN c.phases |-> <<c.phases[q].cnt, [k \in DOMAIN c.phases[q].at |-> <<c.phases[q].at[k].si, c.phases[q].at[k].var>>]>>]
Distinguishes(c) ==
    LET d == Derive(c)
        E == TLCEval(MinTable(EncTable(c, d)))
        S == TLCEval(SemTable(c, d))
        OE == {t[1] : t \in Opt(E)}
        OS == {t[1] : t \in Opt(S)}
        strong == IF E = {} \/ S = {} THEN E # S
                  ELSE Abs(Best(E) - Best(S)) >= Margin \/ (Best(E) = Best(S) /\ OE \cap OS = {})
        weak == E # {} /\ S # {} /\ Best(E) = Best(S) /\ OE # OS
        out(tag) == PrintT(<<"V", tag, Drop, c.call, info.var.D, Evidence(c), PhasesFlat(c), Flat(Opt(S)), Flat(Opt(E))>>)
    IN IF d.edge THEN FALSE
       ELSE IF strong THEN out("WITNESS")
       ELSE IF weak THEN ~out("WEAK")
       ELSE FALSE
RuleRedundant == stage = "case" => ~Distinguishes(case)
=============================================================================
