SPECIFICATION MCSpec
INVARIANT SupportProportional
INVARIANT ReferenceReduced
INVARIANT Untouched
INVARIANT ReferenceCallsAreSilent
INVARIANT IgnoredAreNoOps
INVARIANT SwappedReexpressed
INVARIANT MultiAltPicksCalled
INVARIANT OrderIndependent
INVARIANT OperationalIsFinal
INVARIANT OperationalTracksRows
INVARIANT Conserved
INVARIANT DiplotypeRecovered
INVARIANT PlansCarry
PROPERTY IgnoredStepNoOp
