CONSTANTS
  G <- MCGene
  MaxReads = 3
  Ks = {2, 3}
  NeutralHi = 10
SPECIFICATION MCSpec
INVARIANT InvForms
INVARIANT InvScale
INVARIANT InvGeneLinear
INVARIANT InvSelfTwo
INVARIANT InvStructure
INVARIANT InvEmptyNeutral
INVARIANT OutMatchesNorm
