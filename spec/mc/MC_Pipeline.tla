---------------------------- MODULE MC_Pipeline ----------------------------
(* Bounded exhaustive exploration of Pipeline: <= 2 structures, <= 2 major candidates each,  *)
(* <= 1 refined candidate per selected major candidate, scores on a coarse grid, any stage    *)
(* may return the empty list.  GapU in {0, 1000 (0.1), 3000 (0.3)} via separate cfgs.         *)
EXTENDS Pipeline

CNScores == {0, 400, 2500}
RawScores == {0, 600, 2900}
CNChoices == {<<>>} \cup {<<[key |-> 1, score |-> a]>> : a \in CNScores}
             \cup {s \in {<<[key |-> 1, score |-> a], [key |-> 2, score |-> b]>> : a \in CNScores, b \in CNScores} :
                        s[1].score <= s[2].score}
MajChoices == {<<>>} \cup {<<[key |-> 1, raw |-> a]>> : a \in RawScores}
              \cup {<<[key |-> 1, raw |-> a], [key |-> 2, raw |-> b]>> : a \in RawScores, b \in RawScores}
Rescale(c, cn) == (2 * c * (cn + U) + (MinCN + U)) \div (2 * (MinCN + U))
MinorFrom(raws) ==      \* raws: [1..Len(selMaj) -> RawScores \cup {-1}]  (-1: no refinement found)
    LET ks == {k \in DOMAIN selMaj : raws[k] >= 0}
        mk(k) == LET j == selMaj[k]
                     carried == raws[k] + majS[j].score - MinSelMajor
                 IN [key |-> k, maj |-> j, raw |-> raws[k], carried |-> carried,
                     final |-> Rescale(carried, cnS[majS[j].cn].score)]
    IN  [i \in 1..Cardinality(ks) |-> mk(CHOOSE k \in ks : Cardinality({q \in ks : q < k}) = i - 1)]
Orders(S) == {o \in [1..Cardinality(S) -> S] : \A a, b \in DOMAIN o : a # b => o[a] # o[b]}

MCNext ==
    \/ \E s \in CNChoices : EstimateCN(s)
    \/ \E s \in MajChoices : EstimateMajor(s)
    \/ \E o \in Orders({i \in DOMAIN majS : MajorSelected(i)}) : SelectMajor(o)
    \/ (pc = "minor" /\ \E r \in [DOMAIN selMaj -> RawScores \cup {-1}] : EstimateMinor(MinorFrom(r)))
    \/ (pc = "final" /\ \E o \in Orders({i \in DOMAIN minS : FinalSelected(i)}) : SelectFinal(o))
CONSTANT Gaps
MCInit == gapU \in Gaps /\ pc = "cn" /\ cnS = <<>> /\ majS = <<>> /\ selMaj = <<>> /\ minS = <<>> /\ report = <<>> /\ err = "" /\ todo = 0
MCSpec == MCInit /\ [][MCNext]_vars
Terminates == <>(pc \in {"done", "failed"})
=============================================================================
