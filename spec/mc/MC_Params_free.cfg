CONSTANT Free = TRUE
SPECIFICATION FreeSpec
INVARIANT TakesGivenValue
INVARIANT TypedAsDocumented
INVARIANT UnknownIgnored
INVARIANT MalformedRejected
INVARIANT RoundTrip
INVARIANT ExplicitOverridesOptions
INVARIANT MatchesExpected
PROPERTY Terminates
