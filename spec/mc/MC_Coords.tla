------------------------------ MODULE MC_Coords ------------------------------
(***************************************************************************)
(* Bounded exhaustive check of the conversion RULES of Coords.tla.         *)
(*                                                                         *)
(* Every RefSeq sequence of length L over SeqAlpha, both strands, every    *)
(* alignment string with at most one I (size 1..MaxGap) and one D (size    *)
(* 1..MaxGap) in either order, every written variant of the five kinds     *)
(* with alleles of length <= 2 over AltAlpha (plus the dotted 3-letter     *)
(* substitution "X.Y>Z.W") at every position that leaves one flanking      *)
(* letter on both sides.                                                   *)
(*   MC_Coords.cfg      : L = 6, gaps <= 2, both orders     (thorough)     *)
(*   MC_Coords_quick.cfg: L = 6, gaps of size 1, I or D only               *)
(* State machine: Init picks (database, written variant); Load applies the *)
(* loader's conversion.  Invariants are the clauses of C08.                *)
(***************************************************************************)
EXTENDS Coords, TLC

CONSTANTS L, SeqAlpha, AltAlpha, MaxGap, BothGaps

VARIABLES seq, strand, cig, w, pc, v
mvars == <<seq, strand, cig, w, pc, v>>

Seqs == [1..L -> SeqAlpha]
Words(n) == [1..n -> AltAlpha]

Cigars ==
    {<< <<"M", L>> >>}
    \cup {<< <<"M", a>>, <<"I", i>>, <<"M", L - a - i>> >> : a \in 1..(L - 2), i \in 1..MaxGap} 
    \cup {<< <<"M", a>>, <<"D", d>>, <<"M", L - a>> >> : a \in 1..(L - 1), d \in 1..MaxGap}
    \cup (IF BothGaps THEN
            {<< <<"M", a>>, <<"I", i>>, <<"M", b>>, <<"D", d>>, <<"M", L - a - i - b>> >> :
                a \in 1..L, i \in 1..MaxGap, b \in 1..L, d \in 1..MaxGap}
            \cup {<< <<"M", a>>, <<"D", d>>, <<"M", b>>, <<"I", i>>, <<"M", L - a - i - b>> >> :
                a \in 1..L, i \in 1..MaxGap, b \in 1..L, d \in 1..MaxGap}
          ELSE {})
GoodCigar(c) == \A k \in 1..Len(c) : c[k][2] >= 1

Written(s) ==
    {[pos |-> p, kind |-> "sub", ref |-> <<s[p]>>, alt |-> <<b>>] : p \in 2..(L - 1), b \in AltAlpha}
    \cup {[pos |-> p, kind |-> "msub", ref |-> <<s[p], s[p + 1]>>, alt |-> a] : p \in 2..(L - 2), a \in Words(2)}
    \cup {[pos |-> p, kind |-> "msub", ref |-> <<s[p], Dot, s[p + 2]>>, alt |-> <<a[1], Dot, a[2]>>] :
              p \in 2..(L - 3), a \in Words(2)}
    \cup {[pos |-> p, kind |-> "del", ref |-> SubSeq(s, p, p + n - 1), alt |-> << >>] : p \in 2..(L - 1), n \in 1..2}
    \cup {[pos |-> p, kind |-> "ins", ref |-> << >>, alt |-> a] : p \in 1..(L - 1), a \in Words(1) \cup Words(2)}
    \cup {[pos |-> p, kind |-> "delins", ref |-> SubSeq(s, p, p + n - 1), alt |-> a] :
              p \in 2..(L - 1), n \in 1..2, a \in Words(1) \cup Words(2)}
GoodW(s, x) ==
    /\ x.pos + Len(x.ref) <= L            \* one flanking letter on the right
    /\ x.ref # x.alt
    /\ (x.kind = "sub" => x.alt[1] # x.ref[1])
    /\ (x.kind = "msub" => x.alt[1] # x.ref[1] /\ x.alt[Len(x.alt)] # x.ref[Len(x.ref)])

VW == View(seq, strand, cig)

Init ==
    /\ seq \in Seqs /\ strand \in {1, -1}
    /\ cig \in {c \in Cigars : GoodCigar(c)}
    /\ w \in {x \in Written(seq) : GoodW(seq, x)}
    /\ pc = "written" /\ v = Dropped

Load ==
    /\ pc = "written"
    /\ v' = Conv(VW, w)
    /\ pc' = IF v' = Dropped THEN "dropped" ELSE "loaded"
    /\ UNCHANGED <<seq, strand, cig, w>>

Next == Load
Spec == Init /\ [][Next]_mvars

Loaded == pc = "loaded"
Decidable == Loaded /\ HasBlock(VW, w)          \* footprint does not touch an alignment gap

WellFormed == WellFormedW(seq, w) /\ RefAlleleMatches(VW, w)
MapsOK == MapsMutuallyInverse(VW) /\ LookupAgrees(VW)
TheoremHolds == Decidable => Theorem(VW, w, v)
GenomeAlleleOK == Decidable => GenomeAlleleMatches(VW, v)
RoundTrip == Loaded => NotationRoundTrip(VW, w, v)
AnchorsAgree == (Decidable /\ w.kind \in {"ins", "del", "delins"}) => InsertionAnchorAgrees(VW, v)
\* a variant whose footprint is gap-free is never dropped
NeverDroppedWhenAligned == HasBlock(VW, w) => pc # "dropped"
=============================================================================
