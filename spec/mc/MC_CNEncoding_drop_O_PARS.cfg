CONSTANTS
  Ms = {3, 4}
  Modes = {0, 1, 2, 3}
  XMax = 2
  QMax = 1
  Margin = 20000
  Drop = {"O_PARS"}
SPECIFICATION Spec
INVARIANT RuleRedundant
