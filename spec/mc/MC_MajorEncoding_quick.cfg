CONSTANTS
  D = 20
  Copies = 2
  Pens = {210000}
  Margin = 50
  Drop = {}
SPECIFICATION Spec
INVARIANT Refines
