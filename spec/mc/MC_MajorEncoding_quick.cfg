CONSTANTS
  D = 20
  Copies = 2
  NPens = 1
  Margin = 50
  Drop = {}
SPECIFICATION Spec
INVARIANT Refines
