------------------------------ MODULE MC_Filter ------------------------------
(***************************************************************************)
(* C15, design level: low-quality observations are invisible to the        *)
(* evidence filters.  State: one site with a reference op, a substitution, *)
(* and an insertion, each with `good' and `low' observation counts.        *)
(* Actions AddLowQ / RemoveLowQ change only low-quality counts (they model *)
(* adding, removing or degrading reads below either quality threshold);    *)
(* AddGood / RemoveGood change good counts.  Exhaustive for counts 0..MaxN,*)
(* thresholds {0.3, 0.5}, min_coverage {1, 2}, site copy number 1..3.      *)
(***************************************************************************)
EXTENDS Filter
CONSTANT MaxN

VARIABLES site, par, cn, snap    \* snap: filtered view when the good counts last changed
vars == <<site, par, cn, snap>>

Op(name, g, lo, ins, v) == [op |-> name, good |-> g, low |-> lo, ins |-> ins, var |-> v, tab |-> <<>>, elig |-> TRUE]
View(p, s, c) == [k \in DOMAIN s.ops |-> <<Passes3(p, s, s.ops[k], c), FCov(p, s, s.ops[k], c), Obs(p, s, s.ops[k], c)>>]

Params == {[thrN |-> 3, thrD |-> 10, minCov10 |-> 10, cnMax |-> 20], [thrN |-> 1, thrD |-> 2, minCov10 |-> 20, cnMax |-> 20],
           [thrN |-> 1, thrD |-> 2, minCov10 |-> 10, cnMax |-> 4]}
Init ==
    /\ par \in Params /\ cn \in 1..3
    /\ \E g1, g2, g3 \in 0..MaxN :
         site = [pos |-> 0, ops |-> <<Op("_", g1, 0, FALSE, 0), Op("A>G", g2, 0, FALSE, 1), Op("insT", g3, 0, TRUE, 2)>>]
    /\ snap = View(par, site, cn)

SetLow(k, n) == site' = [site EXCEPT !.ops[k].low = n]
SetGood(k, n) == site' = [site EXCEPT !.ops[k].good = n]
AddLowQ == \E k \in DOMAIN site.ops : site.ops[k].low < MaxN /\ SetLow(k, site.ops[k].low + 1) /\ UNCHANGED <<par, cn, snap>>
RemoveLowQ == \E k \in DOMAIN site.ops : site.ops[k].low > 0 /\ SetLow(k, site.ops[k].low - 1) /\ UNCHANGED <<par, cn, snap>>
LowQStep == AddLowQ \/ RemoveLowQ
GoodStep ==
    /\ \E k \in DOMAIN site.ops : \E n \in 0..MaxN : n # site.ops[k].good /\ SetGood(k, n)
    /\ snap' = View(par, site', cn) /\ UNCHANGED <<par, cn>>
Next == LowQStep \/ GoodStep
Spec == Init /\ [][Next]_vars

(* the filtered view only ever changes with the good observations *)
LowQIsStutter == snap = View(par, site, cn)
LowInvisibleInv == LowInvisible(par, site, cn)
(* monotonicity: an op that passes keeps passing when it gains good observations and nothing else changes *)
PassMonotone ==
    \A k \in DOMAIN site.ops :
        LET s2 == [site EXCEPT !.ops[k].good = @ + 1] IN
        (site.ops[k].ins /\ Passes3(par, site, site.ops[k], cn) = "yes") => Passes3(par, s2, s2.ops[k], cn) = "yes"
(* a passing op has at least min_coverage good observations *)
PassImpliesMinCov == \A k \in DOMAIN site.ops : Passes(par, site, site.ops[k], cn) => 10 * site.ops[k].good >= par.minCov10
=============================================================================
