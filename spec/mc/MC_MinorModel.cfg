CONSTANT D = 10
SPECIFICATION Spec
INVARIANT PlantedAdmissibleAtZero
INVARIANT NothingBelowZero
INVARIANT ZeroScoreCarriesPlantedVariants
INVARIANT FillKeepsOnePerSite
INVARIANT FillOnlyAddsSupported
