CONSTANTS
  Copies = 2
  Extras = FALSE
  Families = {2, 4}
  Margin = 50
  Drop = {}
SPECIFICATION Spec
INVARIANT Refines
