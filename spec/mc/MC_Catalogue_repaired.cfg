SPECIFICATION Spec
CONSTANTS
  NAlt = 3
  MaxLeft = 2
  PseudoZero = FALSE
  RepairedRule = TRUE
INVARIANT StepwiseIsCatalogue
INVARIANT InvReachable
INVARIANT InvMajorsDistinct
INVARIANT InvCoreIffFunctional
INVARIANT InvMinorsDistinct
INVARIANT InvConfigExists
INVARIANT InvPartialKeepsRetained
INVARIANT InvConfigsDistinct
INVARIANT InvAliasesLive
