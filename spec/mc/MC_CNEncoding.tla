---------------------------- MODULE MC_CNEncoding ----------------------------
(***************************************************************************)
(* Bounded check of the gene-structure ENCODING layer against the semantic *)
(* layer (C03; DESIGN 3.1, 3.2 (C)).                                        *)
(*                                                                          *)
(* Universe: the toy gene of the test suite as projected by                 *)
(* harness/project.cn_case (5 unique regions e1 i1 e2 i2 e3; configurations *)
(* 1 = default, 2 = left fusion "4" (keeps i2, e3), 3 = right fusion "5"    *)
(* (keeps e1, i1; pseudogene gains e2..e3), 4 = whole-gene deletion "6";    *)
(* pseudogene present), default penalties, M in Ms, parameter mode in Modes  *)
(* (0: cn_max 20, no long-read fusion support values; 1: cn_max 1; 2: left   *)
(* fusion without long-read support; 3: right fusion without support; modes  *)
(* are explored in this order so that witnesses prefer the defaults).  Depths = every well-formed explanation    *)
(* (two complete copies, <= XMax weak copies, <= QMax free pseudogene        *)
(* copies) planted exactly (integers), then ONE region of the gene or the    *)
(* pseudogene perturbed by +-1 copy.                                         *)
(*                                                                          *)
(* Drop = {}  : invariant Refines = EncodingRefinesSemantics on every case.  *)
(* Drop = {K} : invariant RuleRedundant; a counterexample DISTINGUISHES K    *)
(*   and is printed as <<"V","WITNESS",Drop,M,cnMax100,fs,c0,c1,allowed,     *)
(*   allowed without K>> (structures within gap 0 as <<counts, score>>).     *)
(***************************************************************************)
EXTENDS CNEncoding, TLCExt
CONSTANTS Ms, Modes, XMax, QMax, Margin
ModeCm(m) == IF m = 1 THEN 100 ELSE 2000
ModeFs(m) == IF m = 2 THEN 1 ELSE IF m = 3 THEN 2 ELSE 0

ToyCfgs(fs) ==
    << [name |-> "1", kind |-> "default",  g |-> <<1, 1, 1, 1, 1>>, ps |-> <<1, 1, 1, 1, 1>>, fsA |-> 0, fsB |-> -1],
       [name |-> "4", kind |-> "left",     g |-> <<0, 0, 0, 1, 1>>, ps |-> <<1, 1, 1, 0, 0>>,
        fsA |-> IF fs = 1 THEN 0 ELSE 5, fsB |-> IF fs = 0 THEN -1 ELSE 10],
       [name |-> "5", kind |-> "right",    g |-> <<1, 1, 0, 0, 0>>, ps |-> <<1, 1, 2, 2, 2>>,
        fsA |-> IF fs = 2 THEN 0 ELSE 5, fsB |-> IF fs = 0 THEN -1 ELSE 10],
       [name |-> "6", kind |-> "deletion", g |-> <<0, 0, 0, 0, 0>>, ps |-> <<1, 1, 1, 1, 1>>, fsA |-> 0, fsB |-> -1] >>
Par(cm) == [diff10 |-> 100, fit10 |-> 10, pars |-> 37500, parsL |-> 18750, parsR |-> 9375, cnMax100 |-> cm, gapN |-> 0, gapD |-> 1]
Base(M, cm, fs) ==
    [p |-> Par(cm), M |-> M, regs |-> [r \in 1..5 |-> [c0 |-> 0, c1 |-> 0, w10 |-> 10]], cfgs |-> ToyCfgs(fs),
     fs |-> fs # 0, pseudo |-> TRUE]

VARIABLES stage, info, case
vars == <<stage, info, case>>

Pos0(n) == IF n < 0 THEN 0 ELSE n
(* planted explanations come from the unfiltered catalogue (fs = 0): a fusion may be present in the sample *)
(* although the long reads do not support it                                                              *)
Plans(M) == LET b == Base(M, 2000, 0) IN
            {e \in Explanations(b) : WellFormed(b, e) /\ e.x <= XMax /\ e.q <= QMax}
Bumps == {<<0, 0, 0>>} \cup {<<w, r, s>> : w \in {1, 2}, r \in 1..5, s \in {-100, 100}}
MkCase(M, cm, fs, e, bump) ==
    LET b0 == Base(M, cm, 0)
        k == Consts(b0)
    IN [Base(M, cm, fs) EXCEPT !.regs = [r \in 1..5 |->
            [c0 |-> Pos0(100 * GeneCn(b0, k, e, r) + (IF bump[1] = 1 /\ bump[2] = r THEN bump[3] ELSE 0)),
             c1 |-> Pos0(100 * PseudoCn(b0, k, e, r) + (IF bump[1] = 2 /\ bump[2] = r THEN bump[3] ELSE 0)),
             w10 |-> 10]]]

Init == \E mode \in Modes : \E M \in Ms : \E e \in Plans(M) :
            /\ stage = "plan" /\ case = <<>>
            /\ info = [M |-> M, cm |-> ModeCm(mode), fs |-> ModeFs(mode), e |-> e, bump |-> <<0, 0, 0>>]
Next == /\ stage = "plan"
        /\ \E b \in Bumps : /\ stage' = "case"
                            /\ info' = [info EXCEPT !.bump = b]
                            /\ case' = MkCase(info.M, info.cm, info.fs, info.e, b)
Spec == Init /\ [][Next]_vars

Refines == stage = "case" => EncodingRefinesSemantics(case)

Near(T, st, b) == \E t \in T : t[1] = st /\ t[2] < b + Margin
Opt(T) == {t \in T : t[2] = Best(T)}
Distinguishes(c) ==
    LET E == TLCEval(MinTable(EncTable(c)))
        S == TLCEval(MinTable(Table(c)))
        differs == IF E = {} \/ S = {} THEN E # S
                   ELSE \/ Abs(Best(E) - Best(S)) >= Margin
                        \/ \E t \in Opt(E) : ~Near(S, t[1], Best(S))
                        \/ \E t \in Opt(S) : ~Near(E, t[1], Best(E))
    IN IF ~differs THEN FALSE
       ELSE PrintT(<<"V", "WITNESS", Drop, c.M, c.p.cnMax100, info.fs,
                     [r \in 1..5 |-> c.regs[r].c0], [r \in 1..5 |-> c.regs[r].c1],
                     IF S = {} THEN {} ELSE Opt(S), IF E = {} THEN {} ELSE Opt(E)>>)
RuleRedundant == stage = "case" => ~Distinguishes(case)
=============================================================================
