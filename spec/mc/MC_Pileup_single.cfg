CONSTANTS
  G <- MCGene
  MaxOps = 4
  MaxLen = 2
  NReads = 1
  Mode = "single4"
SPECIFICATION MCSpec
INVARIANT OperationalEqualsDeclarative
INVARIANT DepthConservation
INVARIANT SubCounts
INVARIANT SplitInvariant
INVARIANT PhaseRecordSound
INVARIANT QualityKept
INVARIANT MnpQualityKept
