----------------------------- MODULE MC_Params -----------------------------
(***************************************************************************)
(* Exhaustive TLC run of Params over the bounded universe of ParamsCases:  *)
(* a plan (one case of `Plans`) is chosen initially and the actions of     *)
(* Params are fired until the plan is carried out: SetCLI/SetAPI for every *)
(* argument, LoadOptions or WriteProfile..EndWrite, LoadProfile, one       *)
(* UpdateStep per keyword IN EVERY ORDER, EndRun; at an "unspec" spelling  *)
(* both allowed branches.  Every state is checked against the seven        *)
(* invariants; every plan must terminate in "done" with hist = plan.       *)
(*                                                                         *)
(* MC_Params.cfg       Plans = AllCases: all 31 names x all spellings x    *)
(*                     routes cli/api/options/write-load + histories on    *)
(*                     the representative names (the emitted replay set);  *)
(*                     liveness: every plan terminates.                    *)
(* MC_Params_quick.cfg the same without the liveness property (deadlock   *)
(*                     check instead: no plan gets stuck before "done").  *)
(* MC_Params_free.cfg  no plan: every interleaving of the actions over a   *)
(*                     small argument universe, up to 2 arguments a stage. *)
(***************************************************************************)
EXTENDS ParamsCases

CONSTANTS Free            \* TRUE: unplanned exploration over the small universe
VARIABLE plan
mcvars == <<vars, plan>>

Plans == AllCases
ASSUME \A c \in Plans : WellFormedCase(c)

Fire(a) == IF IsCli(a) THEN SetCLI(a.tok) ELSE SetAPI(a.name, a.sp)

PlanInit == Init /\ plan \in Plans
(* one named action per kind of step, so that TLC's coverage reports each of them *)
PAddW     == /\ plan.wmode # "none" /\ hist.wmode = "none" /\ Len(hist.ex) < Len(plan.w)   \* arguments of the profile command
             /\ Fire(plan.w[Len(hist.ex) + 1]) /\ UNCHANGED plan
PWrite    == /\ plan.wmode # "none" /\ hist.wmode = "none" /\ hist.ex = plan.w
             /\ WriteProfile(plan.wmode) /\ UNCHANGED plan
POptions  == /\ plan.opts # <<>> /\ hist.opts = <<>> /\ LoadOptions(plan.opts) /\ UNCHANGED plan
PAddX     == /\ hist.wmode = plan.wmode /\ hist.opts = plan.opts /\ Len(hist.ex) < Len(plan.ex)   \* explicit arguments of the run
             /\ (plan.wmode # "none" => file.has)
             /\ Fire(plan.ex[Len(hist.ex) + 1]) /\ UNCHANGED plan
PLoad     == /\ hist = [plan EXCEPT !.route = hist.route] /\ hist.route \in {"none", plan.route}
             /\ (plan.wmode # "none" => file.has)
             /\ LoadProfile /\ UNCHANGED plan
PUpdate   == (\E n \in todo : UpdateStep(n)) /\ UNCHANGED plan
PEndWrite == EndWrite /\ UNCHANGED plan
PEndRun   == EndRun /\ UNCHANGED plan
PStutter  == Done /\ UNCHANGED mcvars            \* (so that TLC's deadlock check means: stuck before "done")
PlanNext  == PAddW \/ PWrite \/ POptions \/ PAddX \/ PLoad \/ PUpdate \/ PEndWrite \/ PEndRun \/ PStutter
PlanSpec == PlanInit /\ [][PlanNext]_mcvars /\ WF_mcvars(PlanNext)

(* ---- free exploration ---------------------------------------------------- *)
SmallApi == {AArg("cn_max", SInt(7)), AArg("phase", SBool(FALSE)), AArg("phase", SStr(<<"y","e","s">>)),
             AArg("min_mapq", SStr(<<"a","b","c">>)), AArg("bogus_name", SInt(5))}
SmallCli == {CArg(<<"c","n","-","m","a","x","=","1","2">>), CArg(<<"p","h","a","s","e","=","f","a","l","s","e">>),
             CArg(<<"p","h","a","s","e">>), CArg(<<"g","a","p","=","0",".","2","5">>),
             CArg(<<"b","o","g","u","s","-","n","a","m","e","=","1">>)}
MaxStage == 2
Fresh(a, args) == Resolve(a).ok => Resolve(a).name \notin Names(args)
FreeInit == Init /\ plan = EmptyCase
FreeNext ==
    /\ UNCHANGED plan
    /\ \/ \E a \in SmallCli : Len(hist.ex) < MaxStage /\ Fresh(a, hist.ex) /\ SetCLI(a.tok)
       \/ \E a \in SmallApi : Len(hist.ex) < MaxStage /\ Fresh(a, hist.ex) /\ SetAPI(a.name, a.sp)
       \/ \E a, b \in SmallApi : a.name # b.name /\ (LoadOptions(<<a>>) \/ LoadOptions(<<a, b>>))
       \/ \E wm \in Routes : WriteProfile(wm)
       \/ \E n \in todo : UpdateStep(n)
       \/ EndWrite \/ LoadProfile \/ EndRun
       \/ Done /\ UNCHANGED vars
FreeSpec == FreeInit /\ [][FreeNext]_mcvars /\ WF_mcvars(FreeNext)

MCSpec == IF Free THEN FreeSpec ELSE PlanSpec

(* ---- properties of the run itself ---------------------------------------- *)
CarriesOutPlan == (~Free /\ Done) =>
    \/ hist = plan
    \/ res = "reject" /\ hist = [plan EXCEPT !.ex = <<>>, !.route = "none"]     \* the profile command already failed
Terminates == <>Done
=============================================================================
