CONSTANTS
  Ms = {3}
  Modes = {0, 2}
  XMax = 1
  QMax = 1
  Margin = 20000
  Drop = {}
SPECIFICATION Spec
INVARIANT Refines
