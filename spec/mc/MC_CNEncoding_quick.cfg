CONSTANTS
  Ms = {3}
  CnMaxs = {2000}
  FsSet = {0, 1}
  XMax = 1
  QMax = 1
  Margin = 20000
  Drop = {}
SPECIFICATION Spec
INVARIANT Refines
