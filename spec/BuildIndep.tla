------------------------------ MODULE BuildIndep ------------------------------
(***************************************************************************)
(* C13 -- calls do not depend on genome build or gene strand.              *)
(* The two-run fragment of History: Run(build) instantiates the stage       *)
(* semantics (CNModel, MajorModel, MinorModel: one source of truth) with    *)
(* the SAME abstract catalogue and the SAME abstract evidence and yields    *)
(* res[build]; BuildFree: res["hg19"] = res["hg38"].                        *)
(*                                                                         *)
(* Abstract catalogue (RefSeq terms, no genome coordinate anywhere):        *)
(*   Regions   Seq([name, s, e]) in GENE order, RefSeq 0-based half open    *)
(*   CnRegions Seq(name) the copy-number regions, database order            *)
(*   Variants  Seq([name, pos, len, ins, core]) name = RefSeq notation,     *)
(*             pos = first RefSeq base (0-based); an insertion lies between *)
(*             pos and pos+1; core variants come first (ids 1..NCore)       *)
(*   Configs   Seq([name, kind, brk]) structures: "default" | "left" (the   *)
(*             pseudogene up to region brk, the gene from brk on)           *)
(*   Majors    Seq([name, cfg, core: Seq(variant)]), Minors Seq([name,      *)
(*             major, silent: Seq(variant)])                                *)
(* Abstract evidence (indexed by variant id and region name only):          *)
(*   nv[v] observations of variant v, nr[v] observations of the reference   *)
(*   at the locus of v (every base v replaces), dg/dp[region] normalised    *)
(*   depth of gene / pseudogene in 1/100 copies.                            *)
(*                                                                         *)
(* What transports catalogue and evidence to a build is modelled            *)
(* explicitly:                                                              *)
(*   R2C(b, r)          the coordinate map (strand, offset)                 *)
(*   PileupSite(b, v)   where an alignment against build b shows v: the     *)
(*                      first GENOME base of its footprint                  *)
(*   LoadSite(b, m, v)  the genome site the loaded catalogue keys v by      *)
(*   RegionOrder(b, m)  the order in which the loader lists the regions;    *)
(*                      a fusion break point "brk" means rank >= rank(brk)  *)
(* with a mode m that selects the loader's rule or a deliberately wrong     *)
(* alternative (the named hazard actions RunGenomeOrder, RunRefSeqAnchor).  *)
(* Not modelled: the support filter of configurations (cn.py               *)
(* _filter_configs), the homozygous-fill post-processing and the read-phase *)
(* term of the minor stage (all functions of the same transported table).   *)
(***************************************************************************)
EXTENDS Core, TLCExt
CN == INSTANCE CNModel
MM == INSTANCE MajorModel
MI == INSTANCE MinorModel

CONSTANTS Builds, Strand, Offset, L, Regions, CnRegions, Variants, Configs, Majors, Minors,
          PCN, PStage, MaxCN, Evidence
VARIABLES ev, res
vars == <<ev, res>>

NV == Len(Variants)
VarIds == 1..NV
CoreIds == {v \in VarIds : Variants[v].core}
ASSUME CoreFirst == \A v, w \in VarIds : (Variants[v].core /\ ~Variants[w].core) => v < w

Normal    == [order |-> "strand", anchor |-> "kind"]
HazOrder  == [order |-> "genome", anchor |-> "kind"]
HazAnchor == [order |-> "strand", anchor |-> "refseq-first"]

(* ---- coordinate maps ---------------------------------------------------------------------- *)
R2C(b, r) == IF Strand[b] = 1 THEN Offset[b] + r ELSE Offset[b] + (L - 1 - r)
C2R(b, c) == IF Strand[b] = 1 THEN c - Offset[b] ELSE L - 1 - (c - Offset[b])
Foot(v) == IF Variants[v].ins THEN {Variants[v].pos, Variants[v].pos + 1}
           ELSE Variants[v].pos .. (Variants[v].pos + Variants[v].len - 1)
PileupSite(b, v) == MinSet({R2C(b, r) : r \in Foot(v)})
(* the loader's per-kind rule (gene.py process_mutation): on '-' the last RefSeq base of the  *)
(* footprint, for an insertion the base after it                                              *)
KindAnchor(b, v) ==
    IF Strand[b] = 1 THEN R2C(b, Variants[v].pos)
    ELSE IF Variants[v].ins THEN R2C(b, Variants[v].pos + 1)
    ELSE R2C(b, Variants[v].pos + Variants[v].len - 1)
LoadSite(b, m, v) == IF m.anchor = "kind" THEN KindAnchor(b, v) ELSE R2C(b, Variants[v].pos)
RegionOfRef(r) == LET K == {i \in DOMAIN Regions : Regions[i].s <= r /\ r < Regions[i].e}
                  IN Regions[CHOOSE i \in K : TRUE].name
RegionAt(b, c) == RegionOfRef(C2R(b, c))

(* ---- region order and structures ------------------------------------------------------------ *)
GeneOrder == [i \in DOMAIN Regions |-> Regions[i].name]
GenomeOrder(b) == IF Strand[b] = 1 THEN GeneOrder ELSE Reverse(GeneOrder)
RegionOrder(b, m) ==
    IF m.order = "genome" THEN GenomeOrder(b)
    ELSE IF Strand[b] = 1 THEN GenomeOrder(b) ELSE Reverse(GenomeOrder(b))     \* [:: strand]
Rank(b, m, name) == CHOOSE i \in DOMAIN RegionOrder(b, m) : RegionOrder(b, m)[i] = name
GeneCopies(b, m, g, name) ==
    IF Configs[g].kind = "default" THEN 1
    ELSE IF Rank(b, m, name) >= Rank(b, m, Configs[g].brk) THEN 1 ELSE 0
PseudoCopies(b, m, g, name) ==
    IF Configs[g].kind = "default" THEN 1
    ELSE IF Rank(b, m, name) < Rank(b, m, Configs[g].brk) THEN 1 ELSE 0

(* ---- the evidence table of a build (the transport) ------------------------------------------- *)
Op(name, n, ins, v) == [op |-> name, good |-> n, low |-> 0, ins |-> ins, var |-> v, tab |-> <<>>, elig |-> TRUE]
RefAt(b, e, c) ==
    LET W == {w \in VarIds : \E r \in Foot(w) : R2C(b, r) = c}
    IN IF W = {} THEN 0 ELSE e.nr[CHOOSE w \in W : TRUE]
VarAt(b, e, c, v) == IF PileupSite(b, v) = c THEN e.nv[v] ELSE 0
SiteRec(b, m, e, c, V) ==      \* V: the variants the stage considers
    LET here == SetToSortSeq({v \in V : LoadSite(b, m, v) = c}, <)
    IN [pos |-> c, keepall |-> TRUE,
        ops |-> TLCEval(<<Op("_", RefAt(b, e, c), FALSE, 0)>>
                \o [k \in DOMAIN here |-> Op(Variants[here[k]].name, VarAt(b, e, c, here[k]), Variants[here[k]].ins, here[k])])]
SitesOf(b, m, V) == SetToSortSeq({LoadSite(b, m, v) : v \in V}, <)
SiteIdx(sites, c) == CHOOSE i \in DOMAIN sites : sites[i] = c
CfgRows(b, m, sites) ==
    TLCEval([g \in DOMAIN Configs |-> [name |-> Configs[g].name,
                               cn |-> TLCEval([i \in DOMAIN sites |-> GeneCopies(b, m, g, RegionAt(b, sites[i]))])]])

(* ---- stage 1: gene structure ------------------------------------------------------------------ *)
RegIdx(name) == CHOOSE i \in DOMAIN Regions : Regions[i].name = name
CNCase(b, m, e) ==
    [p |-> PCN, M |-> MaxCN, fs |-> FALSE, pseudo |-> TRUE,
     regs |-> TLCEval([i \in DOMAIN CnRegions |-> [c0 |-> e.dg[RegIdx(CnRegions[i])], c1 |-> e.dp[RegIdx(CnRegions[i])], w10 |-> 10]]),
     cfgs |-> TLCEval([g \in DOMAIN Configs |->
                [name |-> Configs[g].name, kind |-> Configs[g].kind, fsA |-> 0, fsB |-> 0 - 1,
                 g  |-> TLCEval([i \in DOMAIN CnRegions |-> GeneCopies(b, m, g, CnRegions[i])]),
                 ps |-> TLCEval([i \in DOMAIN CnRegions |-> PseudoCopies(b, m, g, CnRegions[i])])]])]
Structures(b, m, e) ==       \* {<<structure, score>>}: all structures of minimal objective
    LET c == TLCEval(CNCase(b, m, e))
        T == TLCEval(CN!Table(c))
        S == {t[1] : t \in T}
        sc == [s \in S |-> MinSet({t[2] : t \in {u \in T : u[1] = s}})]
    IN IF T = {} THEN {} ELSE {<<s, sc[s]>> : s \in {x \in S : sc[x] = MinSet({sc[y] : y \in S})}}
StructSeq(s) == LET G == SetToSortSeq({g \in DOMAIN s : s[g] > 0}, <)
                IN TLCEval([k \in DOMAIN G |-> [cfg |-> G[k], n |-> s[G[k]]]])

(* ---- stage 2: major alleles --------------------------------------------------------------------- *)
MajorCase(b, m, e, s) ==
    LET sites == TLCEval(SitesOf(b, m, CoreIds)) IN
    [p |-> PStage, struct |-> StructSeq(s), alleles |-> Majors,
     sites |-> TLCEval([i \in DOMAIN sites |-> SiteRec(b, m, e, sites[i], CoreIds)]),
     vars  |-> TLCEval([v \in CoreIds |-> [si |-> SiteIdx(sites, LoadSite(b, m, v)), ins |-> Variants[v].ins]]),
     cfgs  |-> CfgRows(b, m, sites)]
MajorSols(b, m, e, s) ==     \* {<<allele bag, novel set, score>>}
    LET c == TLCEval(MajorCase(b, m, e, s))
        d == MM!Derive(c)
        adm == TLCEval(MM!AdmissibleCombos(c, d))
        sc == TLCEval([x \in adm |-> MM!Score(c, d, x)])
    IN IF adm = {} THEN {}
       ELSE {<<x, MM!Novel(c, d, x), sc[x]>> : x \in {y \in adm : sc[y] = MinSet({sc[z] : z \in adm})}}

(* ---- stage 3: minor alleles ---------------------------------------------------------------------- *)
MinorCase(b, m, e, s, x) ==
    LET sites == TLCEval(SitesOf(b, m, VarIds)) IN
    [p |-> PStage, struct |-> StructSeq(s), majors |-> Majors, minors |-> Minors, call |-> x, phases |-> <<>>,
     sites |-> TLCEval([i \in DOMAIN sites |-> SiteRec(b, m, e, sites[i], VarIds)]),
     vars  |-> TLCEval([v \in VarIds |-> [si |-> SiteIdx(sites, LoadSite(b, m, v)), ins |-> Variants[v].ins, core |-> Variants[v].core]]),
     cfgs  |-> CfgRows(b, m, sites)]
MinorSols(b, m, e, s, x) ==  \* {<<copies: Seq(<<minor, added, missing>>), score>>}
    LET c == TLCEval(MinorCase(b, m, e, s, x))
        d == MI!Derive(c)
        opts == TLCEval([j \in SeqToSet(c.call) |-> SetToSeq(MI!CopyOptions(c, d, j))])
        all == TLCEval({X \in MI!AssignFrom(c, opts, 1) : MI!Admissible(c, d, X)})
        sc == TLCEval([X \in all |-> MI!Score(c, d, X)])
    IN IF all = {} THEN {}
       ELSE {<<[k \in DOMAIN X |-> <<X[k].minor, MI!Added(c, X[k]), MI!Missing(c, X[k])>>], sc[X]>>
                : X \in {Y \in all : sc[Y] = MinSet({sc[Z] : Z \in all})}}

(* ---- the run of one build: everything in names / variant ids (RefSeq notation) --------------------- *)
Genotype(b, m, e) ==
    LET S == TLCEval(Structures(b, m, e))
        MJ == TLCEval(UNION {{<<t[1], u[1], u[2], u[3]>> : u \in MajorSols(b, m, e, t[1])} : t \in S})
        MN == TLCEval(UNION {{<<q[1], q[2], u[1], u[2]>> : u \in MinorSols(b, m, e, q[1], q[2])} : q \in MJ})
    IN [done |-> TRUE, cn |-> S, major |-> MJ, minor |-> MN]
Todo == [done |-> FALSE, cn |-> {}, major |-> {}, minor |-> {}]

Init == ev \in Evidence /\ res = [b \in Builds |-> Todo]
RunMode(b, m) == ~res[b].done /\ res' = [res EXCEPT ![b] = Genotype(b, m, ev)] /\ UNCHANGED ev
Run(b) == RunMode(b, Normal)
(* HAZARDS (anti-vacuity): deliberately wrong transports, each violates BuildFree                      *)
RunGenomeOrder(b) == RunMode(b, HazOrder)      \* regions always listed in genome order
RunRefSeqAnchor(b) == RunMode(b, HazAnchor)    \* a variant keyed by the genome image of its first RefSeq base
Next == \E b \in Builds : Run(b)
NextGenomeOrder == Next \/ \E b \in Builds : RunGenomeOrder(b)
NextRefSeqAnchor == Next \/ \E b \in Builds : RunRefSeqAnchor(b)
Spec == Init /\ [][Next]_vars
SpecGenomeOrder == Init /\ [][NextGenomeOrder]_vars
SpecRefSeqAnchor == Init /\ [][NextRefSeqAnchor]_vars

(* ---- properties -------------------------------------------------------------------------------------- *)
BuildFree == (\A b \in Builds : res[b].done) => \A b1, b2 \in Builds : res[b1] = res[b2]
(* the design reasons, stated on the transport alone *)
AnchorAgrees == \A b \in Builds : \A v \in VarIds : LoadSite(b, Normal, v) = PileupSite(b, v)
RegionOrderIsGeneOrder == \A b \in Builds : RegionOrder(b, Normal) = GeneOrder
LocusInOneRegion == \A v \in VarIds : \A r1, r2 \in Foot(v) : RegionOfRef(r1) = RegionOfRef(r2)
(* non-vacuity probes (each is EXPECTED to be violated) *)
NothingCalled == \A b \in Builds : res[b].done => res[b].minor = {}
NoFusionCalled == \A b \in Builds : res[b].done => \A t \in res[b].cn : \A g \in DOMAIN t[1] : Configs[g].kind = "default" \/ t[1][g] = 0
=============================================================================
