----------------------------- MODULE DumpReplay -----------------------------
(***************************************************************************)
(* C17 -- a debug dump replays to the same result.  History fragment:      *)
(*                                                                         *)
(*   GenotypeDebug(sample, user)  aldy genotype FILE ... --debug PREFIX    *)
(*        evidence := LoadSample(sample, user)      sam.Sample.__init__    *)
(*        res1     := Result(evidence)              genotype()             *)
(*        dump     := Snapshot(evidence)            Sample._dump_alignments*)
(*   GenotypeDump(dump, user)     aldy genotype PREFIX.tar.gz ...          *)
(*        evidence2 := Restore(dump, user)          Sample._load_dump +    *)
(*                                                  profile.update(params) *)
(*        res2      := Result(evidence2)                                   *)
(*                                                                         *)
(* EVIDENCE (what a Sample holds after construction, the only thing the    *)
(* stages see): name, params (effective model parameters), pdata (profile  *)
(* coverage table, neutral region, neutral value), cn (depth per position  *)
(* of the neutral region), coverage (per position, per op, the BAG of      *)
(* (mapq, baseq) observations), phases (sequence of fragment records       *)
(* site -> op), fusion (long-read fusion counter), indels (catalogued      *)
(* indel -> <<not supporting, supporting>>).  rawnorm / rawmuts are the    *)
(* two tables parse_read filled and _make_coverage combined into coverage; *)
(* they are what is pickled, nothing reads them afterwards.                *)
(*                                                                         *)
(* DUMP = the pickled tuple of sam.py:432-442:                             *)
(*   (name, profile = params + pdata, _dump_cn, Counter(norm),             *)
(*    Counter(muts), [phases with > 1 site], _fusion_counter, _indel_sites)*)
(*                                                                         *)
(* Intentional differences between evidence and evidence2, modelled here:  *)
(*  (a) quality lists become Counters and are expanded grouped by value:   *)
(*      the ORDER of observations is lost, the bag is kept.  Stages use    *)
(*      len() and order-preserving threshold filters only (coverage.py),   *)
(*      so evidence is modelled as bags from the start.                    *)
(*  (b) fragment records with fewer than two sites are not dumped and the  *)
(*      fragment names are replaced by r<i>.  The phase term of the minor  *)
(*      model (minor.py:374-383) counts, per record, the pattern of the    *)
(*      sites restricted to the model's variant positions and keeps        *)
(*      patterns with > 1 site, in first-occurrence order: it reads        *)
(*      PhaseView(phases) only (lemma PhaseLemma, checked by TLC).         *)
(*  (c) display_format, debug_probe, debug_novel, min_avg_coverage are     *)
(*      reset to their defaults on load and then re-applied from the user  *)
(*      parameters (genotype.py:189-190).  Harmless iff the profile file's *)
(*      options section does not set them (MC: OptionsMaySetReset = FALSE; *)
(*      with TRUE TLC shows params is not restored -- confirmed against    *)
(*      the code: finding C17-reset-param-from-options).                   *)
(*  (d) is_long_read is not restored; only a log message depends on it.    *)
(*                                                                         *)
(* UNINTENTIONAL difference (code as is, AliasNorm = TRUE): _make_coverage *)
(* stores the list norm[pos] itself as coverage[pos]["_"] and EXTENDS it   *)
(* with the observations of every non-insertion op at a position outside   *)
(* the RefSeq range (deleted bases of reads on the pseudogene / flanks).   *)
(* The dump is written afterwards, so the pickled norm already contains    *)
(* them and the replay adds them a second time (finding                    *)
(* C17-foreign-ops-counted-twice; NA10860: 19 positions).                  *)
(* The archive also holds <prefix>.<GENE>.genome (the build; read back by  *)
(* detect_genome when --genome is not given) -- field "genome".            *)
(***************************************************************************)
EXTENDS Integers, Sequences, FiniteSets, TLC

CONSTANTS
    Pos,            \* positions of the locus (gene, pseudogene, flanks)
    InBounds,       \* positions inside [min(chr_to_ref), max(chr_to_ref)]
    MutOps,         \* non-reference ops ("-" = deleted base, substitutions, insertions)
    InsOps,         \* the insertions among them
    Quals,          \* (mapq, baseq) pairs
    ParamNames, ResetParams, Default,   \* model parameters, those reset on load, their defaults
    AliasNorm,      \* TRUE: code as is (sam.py:586 aliases norm[pos]); FALSE: repaired (copy)
    PhaseMin,       \* a record is dumped iff it has more than PhaseMin sites (code: 1)
    UpdateOnDump    \* TRUE: genotype.py:189-190 re-applies the user parameters on a dump

VARIABLES pc, sample, user, dropped, evidence, dump, res1, evidence2, res2
vars == <<pc, sample, user, dropped, evidence, dump, res1, evidence2, res2>>

Ops == MutOps \cup {"_"}
Nil == [nil |-> TRUE]

(* ---------------------------------------------------------------- bags *)
EmptyBag == [q \in Quals |-> 0]
BagAdd(a, b) == [q \in Quals |-> a[q] + b[q]]
BagSize(a) == LET RECURSIVE S(_)
                  S(Q) == IF Q = {} THEN 0 ELSE LET q == CHOOSE x \in Q : TRUE IN a[q] + S(Q \ {q})
              IN S(Quals)
RECURSIVE SumMuts(_, _, _)
SumMuts(S, p, muts) == IF S = {} THEN EmptyBag
                       ELSE LET o == CHOOSE y \in S : TRUE IN BagAdd(muts[<<p, o>>], SumMuts(S \ {o}, p, muts))

(* ------------------------------------------- _make_coverage (sam.py:579-608) *)
\* observations of non-insertion ops at a position outside the RefSeq range count as reference
Foreign(p, muts) == IF p \in InBounds THEN EmptyBag
                    ELSE SumMuts(MutOps \ InsOps, p, muts)
CoverageTable(norm, muts, indels) ==
    [p \in Pos |-> [o \in Ops |->
        IF o = "_" THEN BagAdd(norm[p], Foreign(p, muts))
        ELSE IF o \in InsOps THEN (IF indels # <<>> THEN EmptyBag ELSE muts[<<p, o>>])   \* coverage.py:50
        ELSE IF p \in InBounds THEN muts[<<p, o>>] ELSE EmptyBag]]
\* the norm table AFTER _make_coverage ran (this is what _dump_alignments pickles)
NormAfter(norm, muts) ==
    [p \in Pos |-> IF AliasNorm /\ norm[p] # EmptyBag THEN BagAdd(norm[p], Foreign(p, muts)) ELSE norm[p]]

(* -------------------------------------------------------------- phases *)
NSites(r) == Cardinality(DOMAIN r.sites)
\* what the dump keeps: records with more than PhaseMin sites, in order, without names
KeepPhases(ph, k) == LET sel == SelectSeq(ph, LAMBDA r : NSites(r) > k)       \* (iterative: traces have 10^4 records)
                     IN [i \in DOMAIN sel |-> sel[i].sites]
Rename(kept) == [i \in DOMAIN kept |-> [name |-> <<"r", i - 1>>, sites |-> kept[i]]]
PhaseView(ph) == KeepPhases(ph, 1)
\* minor.py:374-383: pattern counts in first-occurrence order, for a set of variant positions
Restrict(sites, mp) == [p \in DOMAIN sites \cap mp |-> sites[p]]
RECURSIVE Patterns(_, _)
Patterns(ph, mp) == IF ph = <<>> THEN <<>>
                    ELSE LET c == Restrict(Head(ph).sites, mp)
                         IN (IF Cardinality(DOMAIN c) > 1 THEN <<c>> ELSE <<>>) \o Patterns(Tail(ph), mp)
RECURSIVE FirstOcc(_, _)
FirstOcc(s, seen) == IF s = <<>> THEN <<>>
                     ELSE IF Head(s) \in seen THEN FirstOcc(Tail(s), seen)
                     ELSE <<Head(s)>> \o FirstOcc(Tail(s), seen \cup {Head(s)})
Modes(ph, mp) == LET s == Patterns(ph, mp)
                     o == FirstOcc(s, {})
                 IN [i \in DOMAIN o |-> <<o[i], Cardinality({j \in DOMAIN s : s[j] = o[i]})>>]

(* ---------------------------------------------------------- parameters *)
Override(p, u) == [n \in ParamNames |-> IF n \in DOMAIN u THEN u[n] ELSE p[n]]
ResetOnLoad(p) == [n \in ParamNames |-> IF n \in ResetParams THEN Default[n] ELSE p[n]]     \* sam.py:327-330

(* ------------------------------------------------------------- fields *)
\* the pickled tuple + the build written to the archive's <prefix>.<GENE>.genome marker file
DumpFields == {"name", "params", "pdata", "cn", "norm", "muts", "phases", "fusion", "indels", "genome"}
EvFields == {"name", "params", "pdata", "cn", "coverage", "phases", "fusion", "indels", "genome"}
Stages == {"load", "guard", "cn", "major", "minor", "select", "output"}
(* WHICH evidence fields each stage reads (from the code):
   load    the gene database is loaded for the build `genome' (genotype.py:89-95,158; for an archive
           the build is read from the marker, sam.py:1010-1018) -- every later stage depends on it;
           Sample.__init__ after loading: _normalize_coverage (region depth = coverage totals x
           profile table / neutral depth), diploid_avg_coverage guard
   guard   genotype(): average coverage against min_avg_coverage
   cn      region depths (coverage, cn, pdata), fusion counter, cn_* parameters, user structure
   major   coverage (quality + threshold filters), indel table, threshold parameters, major_novel
   minor   coverage, indel table, phase records (if params.phase), minor_* parameters
   select  gap, max_minor_solutions (genotype.py:286,305,332)
   output  sample name, coverage and indel table (Coverage column), display_format           *)
Reads == [load   |-> {"genome", "coverage", "cn", "pdata"},
          guard  |-> {"coverage", "params", "pdata"},
          cn     |-> {"coverage", "cn", "pdata", "fusion", "params"},
          major  |-> {"coverage", "indels", "params"},
          minor  |-> {"coverage", "indels", "phases", "params"},
          select |-> {"params"},
          output |-> {"name", "coverage", "indels", "params"}]
ReadFields == UNION {Reads[st] : st \in Stages}
\* dump components an evidence field is rebuilt from
Source(f) == IF f = "coverage" THEN {"norm", "muts", "indels"} ELSE {f}

View(f, x) == IF f = "phases" THEN PhaseView(x) ELSE x
Observe(st, ev) == [f \in Reads[st] |-> View(f, ev[f])]
(* Stage purity: a stage is a function of Observe(stage, evidence) (and of the previous stages'
   results, which are such functions by induction).  Result is the most discriminating pure
   pipeline: any pure pipeline factors through it, so equal Results imply equal results of the
   real stages, and different Results are told apart by SOME pure stage.                        *)
Result(ev) == [st \in Stages |-> Observe(st, ev)]

(* ------------------------------------------------------------- actions *)
\* a sample = what parsing the alignment file yields (+ the profile file: options, pdata)
LoadSample(s, u) ==
    [name |-> s.name, genome |-> s.genome,
     params |-> Override(Override(Default, s.options), u), pdata |-> s.pdata, cn |-> s.cn,
     coverage |-> CoverageTable(s.norm, s.muts, s.indels),
     rawnorm |-> NormAfter(s.norm, s.muts), rawmuts |-> s.muts,
     phases |-> s.phases, fusion |-> s.fusion, indels |-> s.indels]

\* value of a component the dump does not carry: what a fresh Sample of the archive has
ZeroIndels(t) == [k \in DOMAIN t |-> <<0, 0>>]
Blank(f, ev) ==
    CASE f = "name" -> "ARCHIVE" [] f = "params" -> Default [] f = "pdata" -> "none" [] f = "genome" -> "hg19"
      [] f = "cn" -> [p \in DOMAIN ev.cn |-> 0]
      [] f = "norm" -> [p \in Pos |-> EmptyBag] [] f = "muts" -> [k \in Pos \X MutOps |-> EmptyBag]
      [] f = "phases" -> <<>> [] f = "fusion" -> <<>> [] f = "indels" -> ZeroIndels(ev.indels)
Snapshot(ev, drop) ==
    LET full == [name |-> ev.name, genome |-> ev.genome, params |-> ev.params, pdata |-> ev.pdata, cn |-> ev.cn,
                 norm |-> ev.rawnorm, muts |-> ev.rawmuts, phases |-> KeepPhases(ev.phases, PhaseMin),
                 fusion |-> ev.fusion, indels |-> ev.indels]
    IN [f \in DumpFields |-> IF f \in drop THEN Blank(f, ev) ELSE full[f]]
Restore(d, u) ==
    [name |-> d.name, genome |-> d.genome,
     params |-> IF UpdateOnDump THEN Override(ResetOnLoad(d.params), u) ELSE ResetOnLoad(d.params),
     pdata |-> d.pdata, cn |-> d.cn,
     coverage |-> CoverageTable(d.norm, d.muts, d.indels),
     rawnorm |-> NormAfter(d.norm, d.muts), rawmuts |-> d.muts,
     phases |-> Rename(d.phases), fusion |-> d.fusion, indels |-> d.indels]

GenotypeDebug ==
    /\ pc = "start"
    /\ evidence' = LoadSample(sample, user)
    /\ res1' = Result(evidence')
    /\ dump' = Snapshot(evidence', dropped)
    /\ pc' = "dumped" /\ UNCHANGED <<sample, user, dropped, evidence2, res2>>
GenotypeDump ==
    /\ pc = "dumped"
    /\ evidence2' = Restore(dump, user)
    /\ res2' = Result(evidence2')
    /\ pc' = "replayed" /\ UNCHANGED <<sample, user, dropped, evidence, dump, res1>>
Next == GenotypeDebug \/ GenotypeDump

(* ---------------------------------------------------------- properties *)
Replayed == pc = "replayed"
\* every field a stage reads is rebuilt from components the dump carries
SnapshotCoversReads ==
    pc # "start" => \A st \in Stages : \A f \in Reads[st] : Source(f) \subseteq DumpFields \ dropped
FieldEq(f, a, b) == View(f, a[f]) = View(f, b[f])
FieldRestored(f) == FieldEq(f, evidence, evidence2)
RestoreIsSnapshotInverse == Replayed => \A f \in ReadFields : FieldRestored(f)
SameResult == Replayed => res1 = res2
\* the two are equivalent for the universal pure pipeline: SameResult needs nothing beyond the read fields
SameResultIffRestored == Replayed => ((res1 = res2) <=> \A f \in ReadFields : FieldRestored(f))
\* what the phase term of the minor model computes is a function of PhaseView
PhaseLemma == Replayed /\ "phases" \notin dropped /\ PhaseMin = 1 =>
    \A mp \in SUBSET Pos : Modes(evidence.phases, mp) = Modes(evidence2.phases, mp)
\* concrete derived quantities the stages compute from the coverage table
Total(ev, p) == LET RECURSIVE T(_)
                    T(S) == IF S = {} THEN 0 ELSE LET o == CHOOSE x \in S : TRUE
                                                  IN BagSize(ev.coverage[p][o]) + T(S \ {o})
                IN T(Ops \ InsOps)                                                    \* coverage.py:83-85
DepthsAgree == Replayed /\ dropped = {} /\ ~AliasNorm => \A p \in Pos : Total(evidence, p) = Total(evidence2, p)
\* anti-vacuity: a dump writer that omits a component some stage reads (and the sample has something there) is noticed
Exercised(f) ==
    CASE f = "norm" -> \E p \in Pos : sample.norm[p] # EmptyBag
      [] f = "muts" -> \E p \in Pos, o \in MutOps :
                          /\ sample.muts[<<p, o>>] # EmptyBag
                          /\ (o \in InsOps => sample.indels = <<>>)             \* else insertions are not in the table anyway
                          /\ (o \notin InsOps /\ p \notin InBounds => ~AliasNorm) \* else the pickled norm carries them already
      [] f = "phases" -> PhaseView(sample.phases) # <<>>
      [] f = "params" -> evidence.params # Override(Default, user)
      [] OTHER -> LET full == Snapshot(evidence, {}) IN full[f] # Blank(f, evidence)
DropBreaks == Replayed => \A f \in dropped : Exercised(f) => res1 # res2
=============================================================================
