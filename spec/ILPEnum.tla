------------------------------ MODULE ILPEnum ------------------------------
(***************************************************************************)
(* The solution-enumeration loop of aldy.lpinterface (Gurobi.solutions,    *)
(* inherited by CBC): solve, gap test, read-out of the active binaries,    *)
(* yield, exclusion cut, recursion.  One action per critical section of    *)
(* the code (lpinterface.py:200-246).                                      *)
(*                                                                         *)
(* A model is abstracted to its set `feas` of feasible active-binary sets  *)
(* (continuous helper/error variables are eliminated: for a fixed binary   *)
(* assignment the code's models have a unique optimal continuous part) and *)
(* an integer objective `obj` in fixed units.  The solver is an oracle     *)
(* that returns ANY minimiser of the current model (tie-breaking is        *)
(* nondeterministic), which is what TLC explores.                          *)
(***************************************************************************)
EXTENDS Integers, FiniteSets, Sequences, TLC

CONSTANT Bin            \* ids of the binary variables

VARIABLES
    feas,               \* SUBSET SUBSET Bin : feasible active sets
    obj,                \* [feas -> Nat]      : objective (integer units)
    gapN, gapD,         \* gap = gapN / gapD
    limit,              \* maximal number of yielded solutions, 0 = unlimited
    cuts,               \* exclusion cuts added so far (one active set each)
    yielded,            \* Seq(<<objective, active set>>) in yield order
    best,               \* objective of the first solve, -1 before it
    cur,                \* active set returned by the current solve
    iter,               \* recursion depth ("iteration" argument)
    pc,                 \* "solve" | "gaptest" | "yield" | "addcut" | "done"
    why                 \* reason of termination: "" | "infeasible" | "gap" | "limit"
                        \*   | deviations: "notoptimal" | "verify"

vars == <<feas, obj, gapN, gapD, limit, cuts, yielded, best, cur, iter, pc, why>>
params == <<feas, obj, gapN, gapD, limit>>

(* The cut  sum(active) <= |active| - 1  excludes exactly the supersets of `active'. *)
Excluded(s, cs)   == \E c \in cs : c \subseteq s
Remaining(cs)     == {s \in feas : ~Excluded(s, cs)}
MinObj(S)         == CHOOSE m \in {obj[s] : s \in S} : \A s \in S : m <= obj[s]
ArgMin(S)         == {s \in S : \A t \in S : obj[s] <= obj[t]}
WithinGap(o, b)   == o * gapD <= (gapD + gapN) * b    \* o <= (1+gap)*b, exact

Start ==
    /\ cuts = {} /\ yielded = <<>> /\ best = -1 /\ cur = {} /\ iter = 0
    /\ pc = "solve" /\ why = ""

(* self.solve(): infeasible -> NoSolutionsError -> return *)
SolveInfeasible ==
    /\ pc = "solve" /\ Remaining(cuts) = {}
    /\ pc' = "done" /\ why' = "infeasible"
    /\ UNCHANGED <<params, cuts, yielded, best, cur, iter>>

(* self.solve(): any optimum of the current model; best_obj fixed by the first solve *)
Solve(s) ==
    /\ pc = "solve" /\ s \in ArgMin(Remaining(cuts))
    /\ cur' = s
    /\ best' = IF best = -1 THEN obj[s] ELSE best
    /\ pc' = "gaptest"
    /\ UNCHANGED <<params, cuts, yielded, iter, why>>

(* if obj > (1+gap)*best_obj: return *)
GapTest ==
    /\ pc = "gaptest"
    /\ IF WithinGap(obj[cur], best)
         THEN pc' = "yield" /\ why' = why
         ELSE pc' = "done" /\ why' = "gap"
    /\ UNCHANGED <<params, cuts, yielded, best, cur, iter>>

(* yield status, obj, names of the binaries that are 1 *)
Yield ==
    /\ pc = "yield"
    /\ yielded' = Append(yielded, <<obj[cur], cur>>)
    /\ IF limit = 0 \/ iter + 1 < limit
         THEN pc' = "addcut" /\ why' = why
         ELSE pc' = "done" /\ why' = "limit"
    /\ UNCHANGED <<params, cuts, best, cur, iter>>

(* addConstr(sum(active) <= len(active)-1); recurse with iteration+1 *)
AddCut ==
    /\ pc = "addcut"
    /\ cuts' = cuts \cup {cur}
    /\ iter' = iter + 1
    /\ pc' = "solve"
    /\ UNCHANGED <<params, yielded, best, cur, why>>

Next == SolveInfeasible \/ (\E s \in feas : Solve(s)) \/ GapTest \/ Yield \/ AddCut

(* Named deviations of the implementation.  They are NOT part of Next: a trace that  *)
(* needs one of them is rejected, and the rejection names it.                        *)
StatusNotOptimal ==   \* solver returns FEASIBLE/ABNORMAL: the loop returns silently
    /\ pc = "solve" /\ pc' = "done" /\ why' = "notoptimal"
    /\ UNCHANGED <<params, cuts, yielded, best, cur, iter>>
VerifyFails ==        \* CBC VerifySolution false: treated as infeasible
    /\ pc = "solve" /\ pc' = "done" /\ why' = "verify"
    /\ UNCHANGED <<params, cuts, yielded, best, cur, iter>>

---------------------------------------------------------------------------
(* Properties (C05) *)
YObj(i) == yielded[i][1]
YSet(i) == yielded[i][2]
IsYielded(s) == \E i \in 1..Len(yielded) : YSet(i) = s

YieldedFeasible == \A i \in 1..Len(yielded) : YSet(i) \in feas /\ YObj(i) = obj[YSet(i)]
FirstOptimal    == Len(yielded) >= 1 => \A s \in feas : YObj(1) <= obj[s]
NonDecreasing   == \A i \in 1..Len(yielded) - 1 : YObj(i) <= YObj(i + 1)
NoDup           == \A i, j \in 1..Len(yielded) : i # j => YSet(i) # YSet(j)
AllWithinGap    == \A i \in 1..Len(yielded) : WithinGap(YObj(i), YObj(1))
NonEmptyIfFeasible == (pc = "done" /\ feas # {}) => Len(yielded) >= 1
CompleteModuloSuperset ==
    (pc = "done" /\ why \in {"infeasible", "gap"} /\ Len(yielded) >= 1) =>
        \A s \in feas : WithinGap(obj[s], YObj(1)) =>
            \/ IsYielded(s)
            \/ \E i \in 1..Len(yielded) : YSet(i) \subseteq s /\ YObj(i) <= obj[s]
LimitRespected  == limit > 0 => Len(yielded) <= limit
Terminates      == <>(pc = "done")
=============================================================================
