----------------------------- MODULE ParamsCases -----------------------------
(***************************************************************************)
(* The bounded universe of C18: every documented parameter x every         *)
(* spelling of its type x every route, plus short histories.  One source   *)
(* for mc/MC_Params (plan-driven exhaustive run), gen/ParamsGen (case       *)
(* emission for replay into the real code).                                *)
(*                                                                         *)
(* Spellings are chosen so that the property text decides them (clear or   *)
(* malformed) plus a few it leaves open ("unspec": never alarm, but if     *)
(* accepted the documented type is still required).                        *)
(***************************************************************************)
EXTENDS Params

Tup(f) == <<>> \o f            \* function over 1..n -> tuple (canonical for JSON and set membership)

(* names as characters (TLC cannot take a string apart) *)
NameCs == [
    gap                  |-> <<"g", "a", "p">>,
    threshold            |-> <<"t", "h", "r", "e", "s", "h", "o", "l", "d">>,
    min_coverage         |-> <<"m", "i", "n", "_", "c", "o", "v", "e", "r", "a", "g", "e">>,
    min_quality          |-> <<"m", "i", "n", "_", "q", "u", "a", "l", "i", "t", "y">>,
    min_mapq             |-> <<"m", "i", "n", "_", "m", "a", "p", "q">>,
    phase                |-> <<"p", "h", "a", "s", "e">>,
    sam_long_reads       |-> <<"s", "a", "m", "_", "l", "o", "n", "g", "_", "r", "e", "a", "d", "s">>,
    sam_mappy_preset     |-> <<"s", "a", "m", "_", "m", "a", "p", "p", "y", "_", "p", "r", "e", "s", "e", "t">>,
    cn_max               |-> <<"c", "n", "_", "m", "a", "x">>,
    cn_pce_penalty       |-> <<"c", "n", "_", "p", "c", "e", "_", "p", "e", "n", "a", "l", "t", "y">>,
    cn_diff              |-> <<"c", "n", "_", "d", "i", "f", "f">>,
    cn_fit               |-> <<"c", "n", "_", "f", "i", "t">>,
    cn_parsimony         |-> <<"c", "n", "_", "p", "a", "r", "s", "i", "m", "o", "n", "y">>,
    cn_fusion_left       |-> <<"c", "n", "_", "f", "u", "s", "i", "o", "n", "_", "l", "e", "f", "t">>,
    cn_fusion_right      |-> <<"c", "n", "_", "f", "u", "s", "i", "o", "n", "_", "r", "i", "g", "h", "t">>,
    major_novel          |-> <<"m", "a", "j", "o", "r", "_", "n", "o", "v", "e", "l">>,
    minor_miss           |-> <<"m", "i", "n", "o", "r", "_", "m", "i", "s", "s">>,
    minor_add            |-> <<"m", "i", "n", "o", "r", "_", "a", "d", "d">>,
    minor_phase          |-> <<"m", "i", "n", "o", "r", "_", "p", "h", "a", "s", "e">>,
    minor_phase_vars     |-> <<"m", "i", "n", "o", "r", "_", "p", "h", "a", "s", "e", "_", "v", "a", "r", "s">>,
    male                 |-> <<"m", "a", "l", "e">>,
    max_minor_solutions  |-> <<"m", "a", "x", "_", "m", "i", "n", "o", "r", "_", "s", "o", "l", "u", "t", "i", "o", "n", "s">>,
    display_format       |-> <<"d", "i", "s", "p", "l", "a", "y", "_", "f", "o", "r", "m", "a", "t">>,
    debug_probe          |-> <<"d", "e", "b", "u", "g", "_", "p", "r", "o", "b", "e">>,
    debug_novel          |-> <<"d", "e", "b", "u", "g", "_", "n", "o", "v", "e", "l">>,
    min_avg_coverage     |-> <<"m", "i", "n", "_", "a", "v", "g", "_", "c", "o", "v", "e", "r", "a", "g", "e">>,
    vcf_sample_idx       |-> <<"v", "c", "f", "_", "s", "a", "m", "p", "l", "e", "_", "i", "d", "x">>,
    indelpost            |-> <<"i", "n", "d", "e", "l", "p", "o", "s", "t">>,
    bogus_name           |-> <<"b", "o", "g", "u", "s", "_", "n", "a", "m", "e">>,
    cn_maxx              |-> <<"c", "n", "_", "m", "a", "x", "x">>,
    Phase                |-> <<"P", "h", "a", "s", "e">>
]
Unknown  == {"bogus_name", "cn_maxx", "Phase"}      \* neither Profile attributes nor keywords of genotype()
AllNames == Param \cup Unknown
ASSUME DOMAIN NameCs = AllNames
ASSUME \A n \in AllNames : Str(NameCs[n]) = n
ASSUME DOMAIN Default = Param
ASSUME \A n \in Param : Default[n].t = ParamType[n]

(* ---- spellings ---------------------------------------------------------- *)
BoolSpells == {
    SStr(<<"t","r","u","e">>), SStr(<<"T","r","u","e">>), SStr(<<"T","R","U","E">>), SStr(<<"t","R","u","E">>),
    SStr(<<"f","a","l","s","e">>), SStr(<<"F","a","l","s","e">>), SStr(<<"F","A","L","S","E">>), SStr(<<"f","A","l","S","e">>),
    SStr(<<"1">>), SStr(<<"0">>),
    SBool(TRUE), SBool(FALSE), SInt(1), SInt(0),
    \* malformed
    SStr(<<"a","b","c">>), SStr(<<"m","a","y","b","e">>), SStr(<<"2">>), SStr(<<>>), SInt(2),
    \* left open by the property
    SStr(<<"y","e","s">>), SFloat(1, 1) }
IntSpells == {
    SStr(<<"7">>), SStr(<<"0">>), SStr(<<"1","2">>), SStr(<<"-","1">>),
    SInt(7), SInt(0), SInt(-1),
    SStr(<<"a","b","c">>), SStr(<<>>), SStr(<<"7","x">>), SStr(<<"1",",","5">>),
    SStr(<<"3",".","5">>), SStr(<<"3",".","0">>), SStr(<<"1","e","2">>), SFloat(7, 2), SFloat(3, 1), SBool(TRUE) }
FloatSpells == {
    SStr(<<"0",".","2","5">>), SStr(<<"3",".","5">>), SStr(<<"7">>), SStr(<<"0">>), SStr(<<"-","0",".","5">>), SStr(<<"1","e","-","2">>),
    SFloat(1, 4), SFloat(7, 2), SInt(7), SInt(0), SFloat(-1, 2),
    SStr(<<"a","b","c">>), SStr(<<>>), SStr(<<"3",".","5",".","1">>), SStr(<<"1",",","5">>), SStr(<<"0",".","5","x">>),
    SBool(TRUE) }
StrSpells == {
    SStr(<<"m","a","p","-","o","n","t">>), SStr(<<"I","2","2","3","M">>), SStr(<<>>), SStr(<<"t","r","u","e">>),
    SStr(<<"5">>), SStr(<<"a","=","b">>),
    SInt(5), SBool(TRUE) }
UnknownSpells == { SStr(<<"1">>), SStr(<<"a","b","c">>), SInt(5), SBool(FALSE) }

SpellsOfType(t) == CASE t = "bool" -> BoolSpells [] t = "int" -> IntSpells [] t = "float" -> FloatSpells [] t = "str" -> StrSpells
SpellsOf(n) == IF n \in Param THEN SpellsOfType(ParamType[n]) ELSE UnknownSpells
Verdict1(n, sp) == IF n \in Param THEN Parse(ParamType[n], sp).t ELSE "ignored"
IsClear(n, sp)  == Verdict1(n, sp) \in Types

(* the universe exercises every verdict of Parse for every type *)
ASSUME \A t \in Types \ {"str"} : {Parse(t, sp).t : sp \in SpellsOfType(t)} = {t, "reject", "unspec"}
ASSUME {Parse("str", sp).t : sp \in StrSpells} = {"str", "unspec"}
(* a few meanings, spelled out (read this as documentation of Parse) *)
ASSUME Parse("bool", SStr(<<"f","A","l","S","e">>)) = VBool(FALSE)
ASSUME Parse("bool", SInt(0)) = VBool(FALSE) /\ Parse("bool", SStr(<<"1">>)) = VBool(TRUE)
ASSUME Parse("bool", SStr(<<"a","b","c">>)) = VReject /\ Parse("bool", SStr(<<>>)) = VReject
ASSUME Parse("int", SStr(<<"-","1">>)) = VInt(-1) /\ Parse("int", SStr(<<"1","2">>)) = VInt(12)
ASSUME Parse("int", SStr(<<"3",".","5">>)) = VUnspec /\ Parse("int", SStr(<<"7","x">>)) = VReject
ASSUME Parse("float", SStr(<<"1","e","-","2">>)) = VFloat(1, 100) /\ Parse("float", SStr(<<"-","0",".","5">>)) = VFloat(-1, 2)
ASSUME Parse("float", SStr(<<"3",".","5">>)) = Parse("float", SFloat(35, 10)) /\ Parse("float", SInt(7)) = VFloat(7, 1)
ASSUME Parse("float", SStr(<<"3",".","5",".","1">>)) = VReject
ASSUME \A t \in Types : \A sp \in SpellsOfType(t) :       \* writing and re-reading a typed value is the identity
    LET v == Parse(t, sp) IN v.t \in Types => Parse(t, Native(v)) = v

(* ---- arguments ---------------------------------------------------------- *)
Dashed(cs)   == Tup([i \in DOMAIN cs |-> IF cs[i] = "_" THEN "-" ELSE cs[i]])
Forms(n)     == {NameCs[n], Dashed(NameCs[n])}          \* cn_max and cn-max
Tok(ncs, cs) == ncs \o <<"=">> \o cs
ApiArgs(N)   == UNION {{AArg(n, sp) : sp \in SpellsOf(n)} : n \in N}
CliArgs(N)   == UNION {{CArg(Tok(f, sp.cs)) : f \in Forms(n), sp \in {s \in SpellsOf(n) : s.k = "str"}} : n \in N}
BareArgs(N)  == {CArg(NameCs[n]) : n \in N}             \* --param phase   (no "=")
ClearApi(N)  == {a \in ApiArgs(N) : IsClear(a.name, a.sp)}
ClearCli(N)  == {a \in CliArgs(N) : IsClear(Resolve(a).name, Resolve(a).sp)}
ArgsOf(r, N) == IF r = "cli" THEN CliArgs(N) ELSE ApiArgs(N)
ClearOf(r, N) == IF r = "cli" THEN ClearCli(N) ELSE ClearApi(N)
NameOf(a)    == Resolve(a).name
Routes       == {"cli", "api"}

(* ---- cases --------------------------------------------------------------- *)
(* (1) every single transition: one parameter, one spelling, one route *)
Singles(N) ==
    {EmptyCase, Case("cli", <<>>, <<>>, "none", <<>>), Case("api", <<>>, <<>>, "none", <<>>)}
    \cup {Case("none", <<>>, <<>>, "cli", <<a>>) : a \in CliArgs(N) \cup BareArgs({"phase", "cn_max"})}
    \cup {Case("none", <<>>, <<>>, "api", <<a>>) : a \in ApiArgs(N)}
    \cup {Case("none", <<>>, <<a>>, "none", <<>>) : a \in ApiArgs(N)}
    \cup {Case("cli", <<a>>, <<>>, "none", <<>>) : a \in CliArgs(N) \cup BareArgs({"phase"})}
    \cup {Case("api", <<a>>, <<>>, "none", <<>>) : a \in ApiArgs(N)}
(* (2) the same parameter in the options section (well-formed) and explicitly (any spelling) *)
OptThenExplicit(N) == UNION {
    {Case("none", <<>>, <<o>>, r, <<x>>) : o \in ClearApi({n}), x \in ArgsOf(r, {n})} : n \in N, r \in Routes}
(* (3) written by the profile command (well-formed), loaded with an explicit override *)
WriteThenExplicit(N) == UNION {
    {Case(r, <<w>>, <<>>, r, <<x>>) : w \in ClearOf(r, {n}), x \in ArgsOf(r, {n})} : n \in N, r \in Routes}
(* (4) different parameters together: independence, unknown next to known, malformed next to good *)
FewApi == { AArg("cn_max", SInt(7)), AArg("gap", SStr(<<"0",".","2","5">>)), AArg("phase", SBool(FALSE)),
            AArg("male", SStr(<<"T","r","u","e">>)), AArg("debug_probe", SStr(<<"I","2","2","3","M">>)),
            AArg("bogus_name", SInt(5)), AArg("min_mapq", SStr(<<"a","b","c">>)), AArg("cn_fit", SFloat(7, 2)) }
FewCli == { CArg(<<"c","n","-","m","a","x","=","7">>), CArg(<<"g","a","p","=","0",".","2","5">>),
            CArg(<<"p","h","a","s","e","=","f","a","l","s","e">>), CArg(<<"m","a","l","e","=","T","r","u","e">>),
            CArg(<<"s","a","m","-","m","a","p","p","y","-","p","r","e","s","e","t","=","m","a","p","-","o","n","t">>),
            CArg(<<"b","o","g","u","s","-","n","a","m","e","=","1">>),
            CArg(<<"m","i","n","_","m","a","p","q","=","a","b","c">>), CArg(<<"c","n","_","f","i","t","=","3",".","5">>) }
FewOf(r) == IF r = "cli" THEN FewCli ELSE FewApi
Distinct(a, b) == NameOf(a) # NameOf(b)
DPairs(S, T) == {p \in S \X T : Distinct(p[1], p[2])}
Mixed ==
    UNION {{Case("none", <<>>, <<>>, r, <<p[1], p[2]>>) : p \in DPairs(FewOf(r), FewOf(r))} : r \in Routes}
    \cup UNION {{Case("none", <<>>, <<p[1]>>, r, <<p[2]>>) : p \in DPairs(FewApi, FewOf(r))} : r \in Routes}
    \cup {Case("none", <<>>, <<p[1], p[2]>>, "none", <<>>) : p \in DPairs(FewApi, FewApi)}
    \cup UNION {{Case(r, <<p[1], p[2]>>, <<>>, "none", <<>>) : p \in DPairs(FewOf(r), FewOf(r))} : r \in Routes}
    \cup UNION {{Case(r, <<p[1]>>, <<>>, r, <<p[2]>>) : p \in DPairs(FewOf(r), FewOf(r))} : r \in Routes}

Rep == {"phase", "cn_max", "gap", "sam_mappy_preset", "bogus_name"}      \* one per type, one unknown
CasesFor(single, pair) == Singles(single) \cup OptThenExplicit(pair) \cup WriteThenExplicit(pair) \cup Mixed
AllCases == CasesFor(AllNames, Rep)
WellFormedCase(c) == UniqueNames(c.w) /\ UniqueNames(c.opts) /\ UniqueNames(c.ex)
                     /\ (c.wmode # "none" => c.opts = <<>>)
=============================================================================
