INVARIANT RestoreIsSnapshotInverse
