------------------------------ MODULE PscanTrace ------------------------------
(***************************************************************************)
(* Validation of real executions of aldy's Pharmacoscan route against      *)
(* PscanInput.                                                             *)
(*                                                                         *)
(* The trace file (ndjson, IOEnv.TRACE_FILE) holds                         *)
(*  "gene" events: the catalogue as the real Gene loaded it                *)
(*        chr, spans = [{lo, hi}] sites that lie in the gene (from an      *)
(*        independent coordinate map), cat = [[site, op, kind], ...],      *)
(*        alleles = [{name, vs}] (binding A only; [] otherwise)            *)
(*  "table" events: one real probe table (text file) loaded by the real    *)
(*        Sample(gene, Profile("user_provided", cn_solution=["1","1"]), f) *)
(*        rows  = the probe rows (see PscanInput), in file order           *)
(*        segs  = reference windows around every row                       *)
(*        obs   = observations, one per row order that was loaded (the     *)
(*                first is the file order, the others permutations):       *)
(*          crash = "" or the exception the load raised                    *)
(*          sites = [{s, ops: [[op, n], ...]}]  Coverage._coverage at      *)
(*                  every site that deviates from 20 reference pseudo-     *)
(*                  reads and at every site of every row (insertion ops    *)
(*                  left out: observed through coverage[m] only)           *)
(*          cov   = [{site, op, kind, cov, total}] coverage[m], total(m)   *)
(*                  of catalogued variants (near a row / non-zero)         *)
(*        call  = [] or [{planted: {names, vs}, sols: [{majors, vs}],      *)
(*                crash}]  result of genotype() on the same file           *)
(* For every table the spec state FinalState(gene, rows) is computed with  *)
(* the operators of PscanInput and compared with each observation; every   *)
(* disagreement is printed as <<"V", id, clause, tag, site, how>>.  Module  *)
(* invariants of PscanInput are checked on every replayed table.           *)
(*                                                                         *)
(* Where the implementation is free the spec accepts a set:                *)
(*  - sites of FREE rows (REF neither reference nor swapped; called shape  *)
(*    other than substitution / deletion / insertion) are not compared;    *)
(*  - the "_" count at the anchor of an insertion may or may not be        *)
(*    reduced (the anchor base itself is unchanged); what is fixed is      *)
(*    total(m) - coverage[m] = 20 - 10 * copies for the catalogued m;      *)
(*  - sites that the rows give more than two alternative copies are not    *)
(*    compared (but the observations of two row orders must agree);        *)
(*  - a call is accepted when it names the planted pair or has the         *)
(*    planted variant multiset.                                            *)
(***************************************************************************)
EXTENDS PscanInput, Json, IOUtils

TraceLog == ndJsonDeserialize(IOEnv.TRACE_FILE)
N == Len(TraceLog)

VARIABLES l,       \* next event
          full     \* the whole catalogue of the current gene (the variable `gene` holds the part near the table)
tvars == <<vars, l, full>>
Ev == TraceLog[l]

GeneOf(ev) ==
    [chr |-> ev.chr,
     spans |-> ev.spans,
     segs |-> <<>>,
     cat |-> {<<c[1], c[2]>> : c \in Range(ev.cat)},
     alleles |-> [i \in DOMAIN ev.alleles |-> [name |-> ev.alleles[i].name,
                                                vs |-> {<<c[1], c[2]>> : c \in Range(ev.alleles[i].vs)}]]]
(* the gene as far as this table can tell: reference windows of the table; catalogue entries at  *)
(* the sites of its rows or named in its projection (the harness projects EVERY catalogued        *)
(* variant with non-zero coverage, wherever it is)                                                *)
Near(ev) == UNION {(ev.rows[i].pos - 3)..(ev.rows[i].pos + Len(ev.rows[i].ref) + 3) : i \in DOMAIN ev.rows}
ObsKeys(ev) == UNION {{<<ev.obs[n].cov[i].site, ev.obs[n].cov[i].op>> : i \in DOMAIN ev.obs[n].cov} : n \in DOMAIN ev.obs}
G(ev) == [full EXCEPT !.segs = ev.segs,
                      !.cat = {k \in full.cat : k[1] \in Near(ev)} \cup ObsKeys(ev)]

(* ---- per-row context --------------------------------------------------------- *)
(* Tags name the shape of the rows behind a disagreement (they go into the fingerprint):          *)
(*   prefix    REF and an ALT share leading bases (anchored indel, substitution behind a prefix)   *)
(*   substring a called text that is not an alternative itself occurs INSIDE an alternative       *)
(*   two-alts  two different alternatives of one multi-ALT row are called                         *)
(*   unnamed   a called text the row names neither as REF nor as ALT                              *)
(*   ins       an insertion is keyed at the site;  ins+1  at the site before                      *)
(*   two-rows  two rows give the site alternative copies                                          *)
(*   swapped   REF/ALT columns swapped;  multialt  several alternatives                           *)
OccursIn(x, y) == x # y /\ \E i \in 1..(Len(y) - Len(x) + 1) : SubSeq(y, i, i + Len(x) - 1) = x   \* x occurs in y
RowCtx(g, r) ==
    LET es == Entries(g, r)
        cnt == Counted(g, r)
        free == FreeRow(g, r)
        o == Orient(g, r)
        eff == {j \in DOMAIN es : Effective(es[j])}
        alts == {r.gt[j] : j \in {x \in DOMAIN es : es[x].k \notin {"_", "x"}}}      \* the called alternatives
        tags == (IF cnt /\ ~Unspecified(g, r) /\ \E i \in DOMAIN o.alts : Off(Txt(o.ref), Txt(o.alts[i])) > 0 THEN {"prefix"} ELSE {})
                \cup (IF cnt /\ ~Unspecified(g, r) /\ \E j \in 1..2 : \E i \in DOMAIN o.alts : OccursIn(Txt(r.gt[j]), Txt(o.alts[i]))
                      THEN {"substring"} ELSE {})
                \cup (IF Cardinality(alts) > 1 THEN {"two-alts"} ELSE {})
                \cup (IF \E j \in DOMAIN es : es[j].k = "x" THEN {"unnamed"} ELSE {})
                \cup (IF cnt /\ ~free /\ Swapped(g, r) THEN {"swapped"} ELSE {})
                \cup (IF cnt /\ Len(r.alts) > 1 THEN {"multialt"} ELSE {})
    IN  [r |-> r, es |-> es, counted |-> cnt, free |-> free, tags |-> tags,
         effsites |-> {es[j].site : j \in eff},
         own |-> (r.pos..(r.pos + Len(r.ref))) \cup {es[j].site : j \in eff},
         span |-> ((r.pos - 1)..(r.pos + Len(r.ref) + 1)) \cup {es[j].site : j \in eff}]

InsKeys(E) == {Key(E[i]) : i \in {j \in DOMAIN E : E[j].k = "ins"}}

(* per-table context, computed once *)
Ctx(ev) ==
    LET g == G(ev)
        f == ev.rows
        E == Eff(g, f)
        R == [i \in DOMAIN f |-> RowCtx(g, f[i])]
    IN  [g |-> g, f |-> f, E |-> E, st |-> FinalState(g, f), R |-> R,
         ins |-> InsKeys(E),
         eff |-> {E[i].site : i \in DOMAIN E},
         free |-> UNION {R[i].span : i \in {j \in DOMAIN R : R[j].free}},
         cnt |-> UNION {R[i].own : i \in {j \in DOMAIN R : R[j].counted}},
         ign |-> UNION {R[i].own : i \in {j \in DOMAIN R : ~R[j].counted}}]

TagOrder == <<"prefix", "substring", "two-alts", "ins", "two-rows", "unnamed", "ins+1", "swapped", "multialt">>
(* the tags present, in TagOrder, joined by "," ("plain" when none) *)
Joined(T) == LET t == FoldLeft(LAMBDA acc, x : IF x \in T THEN (IF acc = "" THEN x ELSE acc \o "," \o x) ELSE acc, "", TagOrder)
             IN  IF t = "" THEN "plain" ELSE t
SiteTags(c, s) ==
    (IF Cardinality({i \in DOMAIN c.R : s \in c.R[i].effsites}) > 1 THEN {"two-rows"} ELSE {})
    \cup (IF \E k \in c.ins : k[1] = s THEN {"ins"} ELSE {})
    \cup (IF \E k \in c.ins : k[1] + 1 = s THEN {"ins+1"} ELSE {})
TagSet(c, s) == UNION {c.R[i].tags : i \in {j \in DOMAIN c.R : c.R[j].counted /\ s \in c.R[j].own}} \cup SiteTags(c, s)
Tag(c, s) == Joined(TagSet(c, s))
(* which clause a disagreement at site s belongs to: the clause follows the shape of the rows that own the site *)
Why(c, s, dflt) ==
    IF s \in c.cnt THEN
        (LET T == TagSet(c, s) IN
         IF T \cap {"prefix", "ins", "two-rows"} # {} THEN dflt
         ELSE IF "two-alts" \in T THEN "MultiAltPicksCalled"
         ELSE IF "substring" \in T THEN dflt
         ELSE IF "swapped" \in T THEN "SwappedReexpressed"
         ELSE IF "multialt" \in T THEN "MultiAltPicksCalled"
         ELSE dflt)
    ELSE IF s \in c.ign THEN "IgnoredAreNoOps"
    ELSE "Untouched"

(* how an observed support differs from the expected one: none of it / too little / too much *)
How(obs, exp) == IF obs > exp THEN "excess" ELSE IF obs = 0 THEN "lost" ELSE "short"
ObsN(o, op) ==
    LET M == {i \in DOMAIN o.ops : o.ops[i][1] = op}
    IN  IF M = {} THEN 0 ELSE o.ops[CHOOSE i \in M : TRUE][2]

SiteVerdicts(c, o) ==
    LET s == o.s
        st == c.st
        expRef == NormAt(st, s)
        insReads == SumOver({k \in c.ins : k[1] = s}, LAMBDA k : Get(st.muts, k, 0))
        \* every insertion copy anchored here may or may not have taken reference pseudo-reads away
        okRef == {Min2(FULL, expRef + UNIT * j) : j \in 0..(insReads \div UNIT)}
        ops == ({o.ops[i][1] : i \in DOMAIN o.ops} \cup {k[2] : k \in {x \in DOMAIN st.muts : x[1] = s}})
                 \ ({"_"} \cup {k[2] : k \in c.ins})
    IN  IF ~WellFormed(c.E, s) \/ s \in c.free THEN {}
        ELSE (IF ObsN(o, "_") \notin okRef
              THEN {<<Why(c, s, "ReferenceReduced"), Tag(c, s), s, IF ObsN(o, "_") > expRef THEN "ref-kept" ELSE "ref-lost">>} ELSE {})
             \cup {<<Why(c, s, "SupportProportional"), Tag(c, s), s, How(ObsN(o, op), Get(st.muts, <<s, op>>, 0))>> :
                     op \in {x \in ops : ObsN(o, x) # Get(st.muts, <<s, x>>, 0)}}

CovVerdicts(c, v) ==
    LET k == <<v.site, v.op>>
        exp == Get(c.st.muts, k, 0)
    IN  IF ~WellFormed(c.E, v.site) \/ v.site \in c.free THEN {}
        ELSE (IF v.cov # exp THEN {<<Why(c, v.site, "SupportProportional"), Tag(c, v.site), v.site, How(v.cov, exp)>>} ELSE {})
             \cup (IF v.kind = "ins" /\ exp > 0 /\ RawAt(c.E, v.site) = Copies(c.E, k)
                      /\ v.total - v.cov # Max2(0, FULL - exp)
                   THEN {<<"ReferenceReduced", Tag(c, v.site), v.site,
                           IF v.total - v.cov > Max2(0, FULL - exp) THEN "ref-kept" ELSE "ref-lost">>} ELSE {})

(* every site the spec gives evidence to must have been projected *)
Unreported(c, o) ==
    {k[1] : k \in {x \in DOMAIN c.st.muts : c.st.muts[x] > 0}} \ {o.sites[i].s : i \in DOMAIN o.sites}

ObsVerdicts(c, o) ==
    IF o.crash # ""
    THEN {<<IF \E i \in DOMAIN c.R : ~c.R[i].counted THEN "IgnoredAreNoOps" ELSE "RunCompletes",
            IF \E i \in DOMAIN c.R : c.R[i].free THEN "free-crash:" \o o.crash ELSE "crash:" \o o.crash, 0, "crash">>}
    ELSE UNION {SiteVerdicts(c, o.sites[i]) : i \in DOMAIN o.sites}
         \cup UNION {CovVerdicts(c, o.cov[i]) : i \in DOMAIN o.cov}
         \cup {<<"Machinery:SiteNotReported", "", s, "">> : s \in Unreported(c, o)}

(* the observations of the same rows in another order must be the same observation *)
OrderVerdicts(c, ev) ==
    IF \E n \in DOMAIN ev.obs : ev.obs[n].crash # ev.obs[1].crash \/ ev.obs[n].sites # ev.obs[1].sites \/ ev.obs[n].cov # ev.obs[1].cov
    THEN {<<"OrderIndependent",
            IF \E i \in DOMAIN c.E : ~WellFormed(c.E, c.E[i].site) THEN "overfull-site"
            ELSE IF \E i \in DOMAIN c.R : c.R[i].free THEN "free-row" ELSE "order", 0, "differs">>}
    ELSE {}

(* ---- the call ---------------------------------------------------------------- *)
BagEq(a, b) ==
    /\ Len(a) = Len(b)
    /\ \A x \in Range(a) \cup Range(b) :
         Cardinality({i \in DOMAIN a : a[i] = x}) = Cardinality({i \in DOMAIN b : b[i] = x})
(* two alleles (the structure is fixed to two copies), naming the pair or carrying its variant multiset *)
SolOK(p, sol) == Len(sol.majors) = 2 /\ (BagEq(sol.majors, p.names) \/ BagEq(sol.vs, p.vs))
NotCarried(c, p) ==        \* the variants whose called copies differ from what the planted pair carries
    LET P == {<<x[1], x[2]>> : x \in Range(p.vs)}
    IN  {k \in KeysOf(c.g, c.E) \cup P :
           Copies(c.E, k) # Cardinality({i \in DOMAIN p.vs : <<p.vs[i][1], p.vs[i][2]>> = k})}
CallTag(c) ==
    Joined(UNION {c.R[i].tags : i \in {j \in DOMAIN c.R : c.R[j].counted}} \cup UNION {SiteTags(c, s) : s \in c.eff})
CallVerdicts(c, cl) ==
    IF NotCarried(c, cl.planted) # {} THEN {<<"Machinery:PlantedNotCarried", "", (CHOOSE k \in NotCarried(c, cl.planted) : TRUE)[1], "">>}
    ELSE IF cl.crash # "" THEN {<<"DiplotypeRecovered", "call-crash:" \o cl.crash, 0, "crash">>}
    ELSE IF Len(cl.sols) = 0 THEN {<<"DiplotypeRecovered", "nocall", 0, "nocall">>}
    ELSE IF \E i \in DOMAIN cl.sols : ~SolOK(cl.planted, cl.sols[i]) THEN {<<"DiplotypeRecovered", "call:" \o CallTag(c), 0, "other-call">>}
    ELSE {}

VerdictsC(ev, c) ==
    UNION {ObsVerdicts(c, ev.obs[n]) : n \in DOMAIN ev.obs}
    \cup OrderVerdicts(c, ev)
    \cup UNION {CallVerdicts(c, ev.call[i]) : i \in DOMAIN ev.call}

(* ---- walking the log -------------------------------------------------------------- *)
TraceInit ==
    /\ l = 1
    /\ gene = [chr |-> "", spans |-> <<>>, segs |-> <<>>, cat |-> {}, alleles |-> <<>>]
    /\ full = gene
    /\ table = <<>> /\ norm = <<>> /\ muts = <<>> /\ pc = "fetch" /\ cur = Idle

LoadGene ==
    /\ l <= N /\ Ev.k = "gene"
    /\ gene' = GeneOf(Ev) /\ full' = GeneOf(Ev)
    /\ table' = <<>> /\ norm' = <<>> /\ muts' = <<>> /\ pc' = "fetch" /\ cur' = Idle
    /\ l' = l + 1

ReplayTable ==
    /\ l <= N /\ Ev.k = "table"
    /\ LET c == Ctx(Ev)
       IN  /\ \A v \in VerdictsC(Ev, c) : PrintT(<<"V", Ev.id, v[1], v[2], v[3], v[4]>>)
           /\ gene' = c.g /\ table' = Ev.rows
           /\ norm' = c.st.norm /\ muts' = c.st.muts /\ pc' = "done" /\ cur' = Idle
    /\ l' = l + 1 /\ UNCHANGED full

Finish2 == l = N + 1 /\ PrintT(<<"V", "DONE", N>>) /\ l' = N + 2 /\ UNCHANGED <<vars, full>>

TraceNext == LoadGene \/ ReplayTable \/ Finish2
TraceSpec == TraceInit /\ [][TraceNext]_tvars

(* the statement-level invariants of PscanInput on every replayed table (the state IS FinalState, *)
(* so OperationalIsFinal is void here; the operational layer is decided by MC_PscanInput)         *)
TraceInv ==
    /\ SupportProportional /\ ReferenceReduced /\ Untouched /\ ReferenceCallsAreSilent
    /\ IgnoredAreNoOps /\ SwappedReexpressed /\ MultiAltPicksCalled /\ OrderIndependent
    /\ DiplotypeRecovered
=============================================================================
