--------------------------- MODULE ILPEnumTrace ---------------------------
(***************************************************************************)
(* Trace validation of the real lpinterface enumeration against ILPEnum.   *)
(*                                                                         *)
(* The trace file (ndjson, IOEnv.TRACE_FILE) holds many independent traces,*)
(* each: one "init" event (integer description of a model that was built   *)
(* through the real lpinterface API), then one "yield" event per solution  *)
(* the generator produced, then "end".  From the description the feasible  *)
(* set and the objective are computed HERE by enumerating all binary       *)
(* assignments; the recorded yields are then replayed as                   *)
(* Solve/GapTest/Yield/AddCut steps of ILPEnum.  A step that ILPEnum does  *)
(* not allow rejects the trace, names the clause and skips to the next one.*)
(***************************************************************************)
EXTENDS ILPEnum, Json, IOUtils, SequencesExt, FiniteSetsExt

TraceLog == ndJsonDeserialize(IOEnv.TRACE_FILE)
N == Len(TraceLog)

VARIABLES l,        \* next event to consume
          tid,      \* id of the trace being replayed
          bad       \* TRUE after a rejection: skip to the next "init"
tvars == <<vars, l, tid, bad>>

SumSeq(f) == FoldFunction(LAMBDA x, y : x + y, 0, f)
Abs(x) == IF x < 0 THEN -x ELSE x

(* ---- model description -> (feas, obj) ---------------------------------- *)
Dot(a, s) == SumSeq([i \in DOMAIN a |-> IF i \in s THEN a[i] ELSE 0])
EqErr(e, s) == e.b - Dot(e.a, s)                 \* value forced on the free error term
CardOK(c, s) ==
    LET k == Cardinality(Range(c.s) \cap s) IN
    CASE c.op = "le" -> k <= c.k
      [] c.op = "ge" -> k >= c.k
      [] c.op = "eq" -> k = c.k
Feasible(ev, s) ==
    /\ \A j \in DOMAIN ev.eq : ev.eq[j].ub < 0 \/ Abs(EqErr(ev.eq[j], s)) <= ev.eq[j].ub
    /\ \A j \in DOMAIN ev.card : CardOK(ev.card[j], s)
    /\ \A j \in DOMAIN ev.ord : (ev.ord[j][1] \in s) => (ev.ord[j][2] \in s)   \* x_i <= x_j
    /\ \A j \in DOMAIN ev.prod :                    \* x_r = AND(factors)
         (ev.prod[j].r \in s) <=> (Range(ev.prod[j].f) \subseteq s)
Objective(ev, s) ==
    SumSeq([j \in DOMAIN ev.eq |-> ev.eq[j].w * Abs(EqErr(ev.eq[j], s))]) + Dot(ev.c, s)

Ev == TraceLog[l]
HasEv == l <= N

TraceInit ==
    /\ l = 1 /\ tid = -1 /\ bad = FALSE
    /\ feas = {} /\ obj = <<>> /\ gapN = 0 /\ gapD = 1 /\ limit = 0
    /\ cuts = {} /\ yielded = <<>> /\ best = -1 /\ cur = {} /\ iter = 0
    /\ pc = "idle" /\ why = ""

(* "init": load the model, start the loop *)
LoadModel ==
    /\ HasEv /\ Ev.k = "init" /\ pc \in {"idle", "done"}
    /\ LET B == 1..Ev.n
           F == {s \in SUBSET B : Feasible(Ev, s)}
       IN /\ feas' = F
          /\ obj' = [s \in F |-> Objective(Ev, s)]
    /\ gapN' = Ev.gapN /\ gapD' = Ev.gapD /\ limit' = Ev.limit
    /\ cuts' = {} /\ yielded' = <<>> /\ best' = -1 /\ cur' = {} /\ iter' = 0
    /\ pc' = "solve" /\ why' = ""
    /\ tid' = Ev.tid /\ bad' = FALSE /\ l' = l + 1

(* a recorded yield is explained by Solve(recorded set) . GapTest . Yield, preceded by AddCut *)
Active == Range(Ev.active)
StepAddCut == pc = "addcut" /\ HasEv /\ AddCut /\ UNCHANGED <<l, tid, bad>>
StepSolve ==
    /\ pc = "solve" /\ HasEv /\ Ev.k = "yield"
    /\ Ev.names_ok                             \* yielded names map back to exactly one assignment
    /\ Active \in feas /\ Solve(Active)
    /\ UNCHANGED <<l, tid, bad>>
StepGap == pc = "gaptest" /\ HasEv /\ Ev.k = "yield" /\ GapTest /\ pc' = "yield" /\ UNCHANGED <<l, tid, bad>>
StepYield ==
    /\ pc = "yield" /\ HasEv /\ Ev.k = "yield"
    /\ Ev.ongrid /\ Ev.obj = obj[cur]          \* reported objective is the objective of the set
    /\ Ev.names_ok /\ Ev.vals_ok               \* names map back to one assignment; typed read-back agrees
    /\ Yield
    /\ l' = l + 1 /\ UNCHANGED <<tid, bad>>
(* "end": the generator stopped.  Legal iff the loop can terminate here without a yield. *)
StepEndSolve ==
    /\ pc = "solve" /\ HasEv /\ Ev.k = "end"
    /\ \/ SolveInfeasible
       \/ /\ Remaining(cuts) # {}
          /\ ~WithinGap(MinObj(Remaining(cuts)), IF best = -1 THEN MinObj(Remaining(cuts)) ELSE best)
          /\ pc' = "done" /\ why' = "gap"
          /\ UNCHANGED <<params, cuts, yielded, best, cur, iter>>
    /\ UNCHANGED <<l, tid, bad>>
StepEnd ==
    /\ pc = "done" /\ HasEv /\ Ev.k = "end"
    /\ l' = l + 1 /\ UNCHANGED <<vars, tid, bad>>

Regular == LoadModel \/ StepAddCut \/ StepSolve \/ StepGap \/ StepYield \/ StepEndSolve \/ StepEnd

(* ---- rejection: name the clause, skip to the next trace ------------------ *)
Cuts2 == IF pc = "addcut" THEN cuts \cup {cur} ELSE cuts
Diagnose ==
    IF Ev.k = "yield" THEN
        IF ~Ev.names_ok THEN "NamesNotInjective"
        ELSE IF pc = "done" THEN "YieldAfterTermination(" \o why \o ")"
        ELSE IF pc \in {"solve", "addcut"} THEN
            IF Active \notin feas THEN "YieldedInfeasible"
            ELSE IF Excluded(Active, Cuts2) THEN "NoDup/ExcludedByCut"
            ELSE IF Active \notin ArgMin(Remaining(Cuts2)) THEN "NotOptimalAmongRemaining"
            ELSE "Solve?"
        ELSE IF pc = "gaptest" THEN "AllWithinGap"
        ELSE IF pc = "yield" THEN
            IF ~Ev.ongrid \/ Ev.obj # obj[cur] THEN "ReportedObjective"
            ELSE IF ~Ev.names_ok THEN "NamesNotInjective"
            ELSE IF ~Ev.vals_ok THEN "TypedReadBack"
            ELSE "Yield?"
        ELSE "Unexpected"
    ELSE IF Ev.k = "end" THEN
        IF pc \in {"solve", "addcut"} THEN "CompleteModuloSuperset/PrematureEnd" ELSE "End?"
    ELSE "UnexpectedEvent"

NextInit(i) == IF \E j \in i..N : TraceLog[j].k = "init"
               THEN CHOOSE j \in i..N : TraceLog[j].k = "init" /\ \A m \in i..(j-1) : TraceLog[m].k # "init"
               ELSE N + 1
Reject ==
    /\ HasEv /\ ~ENABLED Regular
    /\ PrintT(<<"V", tid, Diagnose, l>>)
    /\ l' = NextInit(l) /\ bad' = TRUE
    /\ pc' = "idle" /\ UNCHANGED <<params, cuts, yielded, best, cur, iter, why, tid>>

Finish == ~HasEv /\ l = N + 1 /\ PrintT(<<"V", "DONE", N>>) /\ l' = N + 2 /\ UNCHANGED <<vars, tid, bad>>

TraceNext == Regular \/ Reject \/ Finish
TraceSpec == TraceInit /\ [][TraceNext]_tvars

(* every invariant of ILPEnum holds at every step of every replayed trace *)
TraceInv == pc # "idle" =>
    /\ YieldedFeasible /\ FirstOptimal /\ NonDecreasing /\ NoDup /\ AllWithinGap
    /\ NonEmptyIfFeasible /\ CompleteModuloSuperset /\ LimitRespected
=============================================================================
