----------------------------- MODULE BuildTrace -----------------------------
(***************************************************************************)
(* C13 trace validation.  A FAMILY is one abstract case (a catalogue in    *)
(* RefSeq terms + evidence in RefSeq terms, or one set of simulated        *)
(* haplotypes); its events are the runs of the real code per genome build, *)
(* results projected to allele / structure NAMES and RefSeq notation:      *)
(*   fam, first (BOOLEAN: the remembered base event), kind "table"|"reads", *)
(*   build, raised, lost, mismatch (evidence cells that could not be placed *)
(*   / catalogued variants whose loaded key is not where the independent    *)
(*   coordinate map puts them), cat / evd (digests of the catalogue in      *)
(*   RefSeq terms and of the abstract evidence), cfgs, majors (name -> cfg  *)
(*   as pairs), minors (pairs major, minor), variants (RefSeq notations),   *)
(*   cn:    Seq([struct: Seq(name), score]),                                *)
(*   major: Seq([struct, sols: Seq([alleles, novel, score])]),              *)
(*   minor: Seq([struct, alleles, novel, tie, sols: Seq([score, nadd,       *)
(*               copies: Seq(<<major, minor, added, missing>>)])]),         *)
(*   final: Seq([key, score]) (reads only: what genotype() returned),       *)
(*   tol, band, mband: score tolerance and three-valued bands (units of     *)
(*   1e-6) for structure / major scores (band) and refined / final scores   *)
(*   (mband: with read phasing on it also covers the read-phase term).      *)
(* Per event: well-formedness against the event's own catalogue.  Across    *)
(* the family (spec BuildIndep!BuildFree): same structures, same major      *)
(* solutions, same minor solutions, same scores.                            *)
(*   minor[i].tie = number of (allele copy, considered variant) pairs: the  *)
(*   objective carries 1e-6 * (ordinal of the pair) per added variant, a    *)
(*   tie-breaking term whose value depends on the model's build order;      *)
(*   differences inside nadd * tie are reported under their own clause.     *)
(*   Two different refined solutions whose scores agree within that slack    *)
(*   are a tie resolved differently (MinorTieBrokenByBuild); for simulated   *)
(*   reads (evidence equal only up to the band) that is UNDECIDED.           *)
(***************************************************************************)
EXTENDS Core, Json, IOUtils

TraceLog == ndJsonDeserialize(IOEnv.TRACE_FILE)
N == Len(TraceLog)
VARIABLES l, base
vars == <<l, base>>

Bag(s) == [x \in SeqToSet(s) |-> CountIn(s, x)]
Pairs(s) == {<<s[i][1], s[i][2]>> : i \in DOMAIN s}
CfgOf(e, a) == LET K == {i \in DOMAIN e.majors : e.majors[i][1] = a} IN IF K = {} THEN "?" ELSE e.majors[CHOOSE i \in K : TRUE][2]

(* ---- well-formedness of one event ----------------------------------------------------------- *)
WF(e) ==
    LET V == SeqToSet(e.variants)
        C == SeqToSet(e.cfgs)
        MJ == {e.majors[i][1] : i \in DOMAIN e.majors}
        MN == Pairs(e.minors)
    IN
    IF \E i \in DOMAIN e.cn : ~(SeqToSet(e.cn[i].struct) \subseteq C) THEN "WF:StructureName"
    ELSE IF \E i, j \in DOMAIN e.cn : i # j /\ e.cn[i].struct = e.cn[j].struct THEN "WF:StructureRepeated"
    ELSE IF \E i \in DOMAIN e.major : \E j \in DOMAIN e.major[i].sols :
            LET s == e.major[i].sols[j] IN
            \/ ~(SeqToSet(s.alleles) \subseteq MJ)
            \/ Bag([k \in DOMAIN s.alleles |-> CfgOf(e, s.alleles[k])]) # Bag(e.major[i].struct)
         THEN "WF:MajorMatchesStructure"
    ELSE IF \E i \in DOMAIN e.major : \E j \in DOMAIN e.major[i].sols : ~(SeqToSet(e.major[i].sols[j].novel) \subseteq V)
         THEN "WF:NovelInRefSeqNotation"
    ELSE IF \E i \in DOMAIN e.minor : \E j \in DOMAIN e.minor[i].sols :
            LET cp == e.minor[i].sols[j].copies IN
            \/ Bag([k \in DOMAIN cp |-> cp[k][1]]) # Bag(e.minor[i].alleles)
            \/ \E k \in DOMAIN cp : <<cp[k][1], cp[k][2]>> \notin MN
         THEN "WF:MinorRefinesMajor"
    ELSE IF \E i \in DOMAIN e.minor : \E j \in DOMAIN e.minor[i].sols : \E k \in DOMAIN e.minor[i].sols[j].copies :
            LET c == e.minor[i].sols[j].copies[k] IN ~(SeqToSet(c[3]) \cup SeqToSet(c[4]) \subseteq V)
         THEN "WF:AddedMissingInRefSeqNotation"
    ELSE ""

(* ---- comparison with the base event ----------------------------------------------------------- *)
CnKeys(e) == {e.cn[i].struct : i \in DOMAIN e.cn}
CnScore(e, k) == e.cn[CHOOSE i \in DOMAIN e.cn : e.cn[i].struct = k].score
MajKeys(e) == UNION {{<<e.major[i].struct, e.major[i].sols[j].alleles, e.major[i].sols[j].novel>> : j \in DOMAIN e.major[i].sols}
                     : i \in DOMAIN e.major}
MajRun(e) == {e.major[i].struct : i \in DOMAIN e.major}
MajScore(e, k) ==
    LET i == CHOOSE i \in DOMAIN e.major : e.major[i].struct = k[1]
        j == CHOOSE j \in DOMAIN e.major[i].sols : e.major[i].sols[j].alleles = k[2] /\ e.major[i].sols[j].novel = k[3]
    IN e.major[i].sols[j].score
MinKey(m) == <<m.struct, m.alleles, m.novel>>
MinRun(e) == {MinKey(e.minor[i]) : i \in DOMAIN e.minor}
MinOf(e, k) == e.minor[CHOOSE i \in DOMAIN e.minor : MinKey(e.minor[i]) = k]
FinKeys(e) == {e.final[i].key : i \in DOMAIN e.final}
FinScore(e, k) == e.final[CHOOSE i \in DOMAIN e.final : e.final[i].key = k].score

(* |a - b| against tolerance and band: "" | "U" (inside the band: undecided) | "X" *)
Cmp(a, b, tol, band) == IF Abs(a - b) <= tol THEN "" ELSE IF Abs(a - b) <= band THEN "U" ELSE "X"
Worst(S) == IF "X" \in S THEN "X" ELSE IF "U" \in S THEN "U" ELSE ""

MinorCmp(e, b) ==      \* first difference among the refined solutions
    LET K == MinRun(e)
        diffs == {k \in K : LET x == MinOf(e, k).sols
                                y == MinOf(b, k).sols
                            IN Len(x) # Len(y) \/ \E j \in DOMAIN x : x[j].copies # y[j].copies}
        slack == IF e.kind = "table" THEN e.tol ELSE e.mband
        tieOK(k) == LET x == MinOf(e, k).sols
                        y == MinOf(b, k).sols
                    IN Len(x) = Len(y) /\ \A j \in DOMAIN x :
                          Abs(x[j].score - y[j].score) <= slack + Max2(x[j].nadd, y[j].nadd) * MinOf(e, k).tie
        sc == {LET x == MinOf(e, k).sols
                   y == MinOf(b, k).sols
               IN Worst({Cmp(x[j].score, y[j].score, e.tol, e.mband) : j \in DOMAIN x}) : k \in K \ diffs}
        scTie == \A k \in K \ diffs : tieOK(k)
    IN
    IF diffs # {} THEN (IF ~\A k \in diffs : tieOK(k) THEN "BuildFree(minor)"
                        ELSE IF e.kind = "table" THEN "MinorTieBrokenByBuild" ELSE "UNDECIDED:MinorTie(reads)")
    ELSE IF Worst(sc) = "" THEN ""
    ELSE IF e.kind = "table" /\ scTie THEN "ScoreBuildFree(minor-tie-term)"
    ELSE IF Worst(sc) = "U" THEN "UNDECIDED:ScoreBand(minor)"
    ELSE "ScoreBuildFree(minor)"

Compare(e, b) ==
    IF e.evd # b.evd \/ e.kind # b.kind THEN "BadCase:EvidencePremise"
    ELSE IF e.cat # b.cat THEN "CatalogueBuildFree"
    ELSE IF CnKeys(e) # CnKeys(b) THEN "BuildFree(cn)"
    ELSE LET cs == Worst({Cmp(CnScore(e, k), CnScore(b, k), e.tol, e.band) : k \in CnKeys(e)}) IN
    IF cs = "X" THEN "ScoreBuildFree(cn)"
    ELSE IF MajRun(e) # MajRun(b) \/ MajKeys(e) # MajKeys(b) THEN "BuildFree(major)"
    ELSE LET ms == Worst({Cmp(MajScore(e, k), MajScore(b, k), e.tol, e.band) : k \in MajKeys(e)}) IN
    IF ms = "X" THEN "ScoreBuildFree(major)"
    ELSE IF MinRun(e) # MinRun(b) THEN "BuildFree(major)"
    ELSE LET mn == MinorCmp(e, b) IN
    IF mn # "" /\ mn \notin {"UNDECIDED:ScoreBand(minor)", "UNDECIDED:MinorTie(reads)"} THEN mn
    ELSE IF mn = "UNDECIDED:MinorTie(reads)" THEN mn      \* the final result inherits the tie
    ELSE IF FinKeys(e) # FinKeys(b) THEN "BuildFree(genotype)"
    ELSE LET fs == Worst({Cmp(FinScore(e, k), FinScore(b, k), e.tol, e.mband) : k \in FinKeys(e)}) IN
    IF fs = "X" THEN "ScoreBuildFree(genotype)"
    ELSE IF cs = "U" \/ ms = "U" \/ fs = "U" \/ mn # "" THEN "UNDECIDED:ScoreBand"
    ELSE ""

Verdict(e) ==
    IF e.raised # "" THEN "StageRaised"
    ELSE IF Len(e.mismatch) > 0 \/ Len(e.lost) > 0 THEN "TransportAgrees"
    ELSE LET w == WF(e) IN
    IF w # "" THEN w
    ELSE IF e.first THEN ""
    ELSE IF base.fam # e.fam THEN "BadCase:NoBase"
    ELSE IF base.raised # "" THEN ""        \* already reported on the base event
    ELSE Compare(e, base)

Init == l = 1 /\ base = [fam |-> 0 - 1, raised |-> ""]
Step ==
    /\ l <= N
    /\ LET e == TraceLog[l]
           v == Verdict(e)
       IN /\ IF v = "" THEN TRUE ELSE PrintT(<<"V", e.id, v>>)
          /\ base' = IF e.first THEN e ELSE base
    /\ l' = l + 1
Finish == l = N + 1 /\ PrintT(<<"V", "DONE", N>>) /\ l' = N + 2 /\ UNCHANGED base
Spec == Init /\ [][Step \/ Finish]_vars
=============================================================================
