--------------------------- MODULE CatalogueTrace ---------------------------
(***************************************************************************)
(* Validation of REAL catalogues (projection of a loaded aldy Gene)        *)
(* against CatalogueBuild.                                                 *)
(*                                                                         *)
(* Row k = "cat": one database under one build                             *)
(*   tab   the input table parsed from the YAML independently of aldy      *)
(*         (sets as arrays, al[a] = [rank, vars, kind, brk, del])          *)
(*   real  the projected catalogue with names interned to integers:        *)
(*         cfgs  [id, kind, gene, pseudo]                                  *)
(*         majors [id, cfg, core, fus, minors [id, fus, par, neutral]]     *)
(*               fus = id of the fusion configuration for "f#x" names      *)
(*               par = database index of the allele the minor is named by  *)
(*         removed [from, to] (database indexes), res[a] = get_allele(name *)
(*         of database allele a) as [major id, minor id] or [0, 0]         *)
(* Row k = "bi": the two rows of one database (builds hg19 / hg38)         *)
(* Verdict: "" or the first violated clause.                               *)
(***************************************************************************)
EXTENDS CatalogueBuild, Json, IOUtils, TLC

TraceLog == ndJsonDeserialize(IOEnv.TRACE_FILE)
N == Len(TraceLog)
VARIABLE l

Rng(s) == {s[i] : i \in 1..Len(s)}

Tab(t) ==
    [NR |-> t.NR, Zero |-> Rng(t.Zero), ZeroP |-> Rng(t.ZeroP), pseudo |-> t.pseudo, NV |-> t.NV, Core |-> Rng(t.Core),
     reg |-> t.reg, NA |-> t.NA,
     al |-> [a \in 1..t.NA |-> [rank |-> t.al[a].rank, vars |-> Rng(t.al[a].vars), kind |-> t.al[a].kind,
                                brk |-> t.al[a].brk, del |-> Rng(t.al[a].del)]]]

RealCat(r) ==
    [cfgs |-> [c \in {x.id : x \in Rng(r.cfgs)} |->
                  LET x == CHOOSE y \in Rng(r.cfgs) : y.id = c IN [kind |-> x.kind, vec |-> <<x.gene, x.pseudo>>]],
     majors |-> {[cfg |-> m.cfg, core |-> Rng(m.core), fus |-> m.fus,
                  minors |-> {[fus |-> s.fus, par |-> s.par, neutral |-> Rng(s.neutral)] : s \in Rng(m.minors)}] :
                    m \in Rng(r.majors)},
     removed |-> {<<p[1], p[2]>> : p \in Rng(r.removed)}]

\* names: unique, and get_allele() of every database name lands on the minor that carries it
NamesUnique(r) ==
    /\ \A i, j \in 1..Len(r.majors) : i # j => r.majors[i].id # r.majors[j].id
    /\ \A i, j \in 1..Len(r.cfgs) : i # j => r.cfgs[i].id # r.cfgs[j].id
ReachableByName(tb, r, cat) ==
    \A a \in 1..tb.NA : ~BareLeftFusion(tb, a) =>
        /\ r.res[a][1] # 0
        /\ \E m \in Rng(r.majors) :
              /\ m.id = r.res[a][1]
              /\ \E s \in Rng(m.minors) : s.id = r.res[a][2] /\ s.fus = 0 /\ s.par = Resolve(cat, a)
        /\ Cardinality({i \in 1..Len(r.majors) : \E s \in Rng(r.majors[i].minors) : s.id = r.res[a][2]}) = 1
NameForm(r) ==
    [majors |-> {<<m.id, m.cfg, {s.id : s \in Rng(m.minors)}>> : m \in Rng(r.majors)},
     cfgs |-> {<<c.id, c.kind, c.gene, c.pseudo>> : c \in Rng(r.cfgs)}, res |-> r.res]

\* the clauses that depend on the variant -> region assignment; the catalogue must agree with the
\* rule as implemented or with the proposed repair (no duplicate of a database-defined fused allele)
PartitionOK(t, cat) ==
    \/ ValueForm(cat) = ValueForm(Catalogue(t))
    \/ ValueForm(cat) = ValueForm(CatalogueRepaired(t))

CatVerdict(ev) ==
    LET tb   == Tab(ev.tab)
        \* region of the first base as written (proposed repair of the strand-dependent assignment)
        tbW  == [tb EXCEPT !.reg = ev.tab.regw]
        cat  == RealCat(ev.real)
        spec == Catalogue(tb)
        altW == tbW # tb /\ PartialKeepsRetained(tbW, cat) /\ PartitionOK(tbW, cat)
    IN IF ~NamesUnique(ev.real) THEN "NamesUnique"
       ELSE IF ~ConfigExists(cat) THEN "ConfigExists"
       ELSE IF ValueForm(cat).cfgs # ValueForm(spec).cfgs THEN "ConfigsEqualSpec"
       ELSE IF ~CoreIffFunctional(tb, cat) THEN "CoreIffFunctional"
       ELSE IF ~EveryAlleleReachable(tb, cat) THEN
            (IF \A a \in Unreachable(tb, cat) : tb.al[a].kind = "deletion"
             THEN "EveryAlleleReachable/OnlyDeletionAlleles" ELSE "EveryAlleleReachable")
       ELSE IF ~ReachableByName(tb, ev.real, cat) THEN "ReachableByName"
       ELSE IF ~MinorsDistinct(cat) THEN "MinorsDistinct"
       ELSE IF ~PartialKeepsRetained(tb, cat) /\ ~altW THEN "PartialKeepsRetained"
       ELSE IF ~PartitionOK(tb, cat) /\ ~altW THEN "PartitionEqualsSpec"
       ELSE IF ~MajorsDistinct(cat) THEN
            (IF OnlyPartialVsDefined(cat) THEN "MajorsDistinct/PartialVsDefinedFusion" ELSE "MajorsDistinct")
       ELSE ""

BiVerdict(ev) ==
    IF ValueForm(RealCat(ev.a)) # ValueForm(RealCat(ev.b)) THEN "BuildIndependent"
    ELSE IF NameForm(ev.a) # NameForm(ev.b) THEN "BuildIndependent/Names"
    ELSE ""

Verdict(ev) == CASE ev.k = "cat" -> CatVerdict(ev)
                 [] ev.k = "bi"  -> BiVerdict(ev)
                 [] OTHER -> "UnknownRow"

TInit == l = 1 /\ tab = << >> /\ phase = "trace" /\ cfgs = << >> /\ majors = {} /\ removed = {}
TNext ==
    /\ UNCHANGED cvars
    /\ IF l <= N
       THEN /\ LET c == Verdict(TraceLog[l]) IN IF c = "" THEN TRUE ELSE PrintT(<<"V", TraceLog[l].id, c>>)
            /\ l' = l + 1
       ELSE /\ l = N + 1
            /\ PrintT(<<"V", "DONE", N>>)
            /\ l' = N + 2
TSpec == TInit /\ [][TNext]_<<l, cvars>>
=============================================================================
