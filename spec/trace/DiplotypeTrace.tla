--------------------------- MODULE DiplotypeTrace ---------------------------
(***************************************************************************)
(* Validation of real estimate_diplotype / get_major_diplotype /           *)
(* get_minor_diplotype executions against the C11 POSTCONDITIONS of        *)
(* Diplotype.tla (not against the heuristic: another valid arrangement is  *)
(* accepted).  One ndjson row per event, independent of each other:        *)
(*                                                                         *)
(* k = "run": one call                                                     *)
(*   del      "" or the name of the gene's whole-gene-deletion allele      *)
(*   deltok   natural-order tokens of that name                            *)
(*   tandems  the gene's common_tandems  [[a, b], ...]                     *)
(*   copies   the called alleles IN THE ORDER GIVEN TO THE CODE, each      *)
(*            [major, base, fus, btok, novel, minor, adds, miss]           *)
(*              major = called major name, base/fus = split at the first   *)
(*              '#', btok = text/number chunks of base (strings, starts    *)
(*              with a text chunk, "" if the name starts with a digit),    *)
(*              novel = ids of the added variants that the gene's own      *)
(*              table marks functional, adds/miss = ids of all added /     *)
(*              lost variants (ids split at '+')                           *)
(*   exc      "" or the exception the call raised                          *)
(*   hap      MinorSolution.diplotype  [[i, ...], [i, ...]]  (-1 = del)    *)
(*   major    get_major_diplotype() parsed: haplotypes x names x parts     *)
(*            (a name "*1+rs5" is the parts <<"1", "rs5">>)                *)
(*   mtok     natural-order tokens of every printed major name (the        *)
(*            harness's own tokenizer: digit runs are numbers, text chunks *)
(*            are replaced by their rank in code-point order)              *)
(*   minor    get_minor_diplotype() parsed: haplotypes x names x           *)
(*            <<sign, text>> parts ("[*1.001 +rs5 -rs7]")                  *)
(*   smajor   the raw major string                                         *)
(* k = "same": rows = row numbers of runs of ONE bag of <= 2 copies in     *)
(*   different orders; their printed strings must be equal (OrderFree12).  *)
(*                                                                         *)
(* Rejections: <<"V", id, clause, row>>; "DIAG:..." clauses are secondary  *)
(* diagnostics (the real result differs from the heuristic of the spec)    *)
(* and never alarms.                                                       *)
(***************************************************************************)
EXTENDS Diplotype, Json, IOUtils

TraceLog == ndJsonDeserialize(IOEnv.TRACE_FILE)
NRows == Len(TraceLog)

VARIABLE l
tvars == <<vars, l>>

(* the number group of a name: its leading number, or its leading text if it has no leading number *)
KeyOf(btok) == IF btok[1] = "" THEN btok[2] ELSE btok[1]

NE(hap) == SelectSeq(hap, LAMBDA h : h # <<>>)
Count(s, x) == Cardinality({j \in DOMAIN s : s[j] = x})
SameBag(s, t) == Len(s) = Len(t) /\ \A x \in SeqRange(s) \cup SeqRange(t) : Count(s, x) = Count(t, x)

SameShape(a, b) == Len(a) = Len(b) /\ \A h \in DOMAIN a : Len(a[h]) = Len(b[h])
PrintedShape(ev) ==
    LET ne == NE(ev.hap) IN SameShape(ev.major, ne) /\ SameShape(ev.mtok, ne) /\ SameShape(ev.minor, ne)

(* the names shown are the called major alleles: fusion suffix removed, novel core variants appended *)
ExpectMajor(ev, i) == IF i = -1 THEN <<ev.del>> ELSE <<ev.copies[i + 1].base>> \o ev.copies[i + 1].novel
NameIs(parts, expect) ==
    /\ Len(parts) = Len(expect)
    /\ parts[1] = expect[1]
    /\ SameBag(SubSeq(parts, 2, Len(parts)), SubSeq(expect, 2, Len(expect)))
NamesAreMajors(ev) ==
    LET ne == NE(ev.hap) IN
    \A h \in DOMAIN ne : \A k \in DOMAIN ne[h] : NameIs(ev.major[h][k], ExpectMajor(ev, ne[h][k]))
(* the minor diplotype is the same arrangement, naming the called minor alleles with their changes *)
ExpectMinor(ev, i) ==
    IF i = -1 THEN << <<"", ev.del>> >>
    ELSE LET c == ev.copies[i + 1] IN
         << <<"", c.minor>> >> \o [j \in DOMAIN c.adds |-> <<"+", c.adds[j]>>] \o [j \in DOMAIN c.miss |-> <<"-", c.miss[j]>>]
MinorNames(ev) ==
    LET ne == NE(ev.hap) IN
    \A h \in DOMAIN ne : \A k \in DOMAIN ne[h] : NameIs(ev.minor[h][k], ExpectMinor(ev, ne[h][k]))

(* abstract input of the postconditions.  Structure first (no printed names needed) ... *)
InKeys(ev) ==
    [copies  |-> [j \in DOMAIN ev.copies |-> [key |-> KeyOf(ev.copies[j].btok), tok |-> <<>>]],
     tandems |-> ev.tandems,
     del     |-> [has |-> ev.del # "", key |-> ev.del, tok |-> ev.deltok],
     fix     |-> FALSE]
(* ... then with the PRINTED name of every copy (defined once every copy is shown exactly once) *)
TokAt(ev, i) ==
    LET ne == NE(ev.hap)
        p  == CHOOSE hk \in UNION {{<<h, k>> : k \in DOMAIN ne[h]} : h \in DOMAIN ne} : ne[hk[1]][hk[2]] = i
    IN  ev.mtok[p[1]][p[2]]
InNames(ev) ==
    [InKeys(ev) EXCEPT !.copies = [j \in DOMAIN ev.copies |-> [key |-> KeyOf(ev.copies[j].btok), tok |-> TokAt(ev, j - 1)]]]

StructVerdict(in0, r) ==
    IF ~WellFormed(in0, r) THEN "WellFormed"
    ELSE IF ~EachCopyOnce(in0, r) THEN "EachCopyOnce"
    ELSE IF ~BothNonEmpty(in0, r) THEN "BothNonEmpty"
    ELSE IF ~DeletionShown(in0, r) THEN "DeletionShown"
    ELSE IF ~TandemsAdjacent(in0, r) THEN "TandemsAdjacent"
    ELSE ""
OrderVerdict(in1, r) ==
    IF ~NaturalOrder(in1, r) THEN "NaturalOrder"
    ELSE IF ~TandemUnitsInOrder(in1, r) THEN "TandemsAdjacent/NaturalOrder(one reading)"
    ELSE ""

RunVerdict(ev) ==
    IF ev.exc # "" THEN "Completes"
    ELSE LET a == StructVerdict(InKeys(ev), ev.hap) IN
    IF a # "" THEN a
    ELSE IF ~PrintedShape(ev) THEN "NamesAreMajors(shape)"
    ELSE IF ~NamesAreMajors(ev) THEN "NamesAreMajors"
    ELSE IF ~MinorNames(ev) THEN "MinorNamesAreCalled"
    ELSE OrderVerdict(InNames(ev), ev.hap)

(* for one or two copies the string does not depend on the order in which the alleles were produced *)
BagOf(ev) == [j \in DOMAIN ev.copies |-> <<ev.copies[j].major, ev.copies[j].novel>>]
SameVerdict(ev) ==
    LET rows == [j \in DOMAIN ev.rows |-> TraceLog[ev.rows[j]]] IN
    IF \E j \in DOMAIN rows : rows[j].k # "run" \/ Len(rows[j].copies) > 2 \/ ~SameBag(BagOf(rows[j]), BagOf(rows[1]))
        THEN "Malformed(same)"
    ELSE IF \E j \in DOMAIN rows : rows[j].exc # "" THEN "Completes"
    ELSE IF \E j \in DOMAIN rows : rows[j].smajor # rows[1].smajor THEN "OrderFree12"
    ELSE ""

Verdict(ev) == IF ev.k = "run" THEN RunVerdict(ev) ELSE IF ev.k = "same" THEN SameVerdict(ev) ELSE "UnknownEvent"

(* secondary diagnostic only: does the real arrangement equal the one of the spec's heuristic? *)
ModelDiffers(ev) ==
    LET o == Arrange(InNames(ev)) IN o.err # "" \/ o.res # ev.hap

TraceInit == l = 1 /\ in = <<>> /\ st = St0 /\ pc = "trace" /\ res = <<>>
Consume ==
    /\ l <= NRows
    /\ LET ev == TraceLog[l]
           v  == Verdict(ev)
       IN  /\ v # "" => PrintT(<<"V", ev.id, v, l>>)
           /\ (v = "" /\ ev.k = "run" /\ ModelDiffers(ev)) => PrintT(<<"V", ev.id, "DIAG:DiffersFromHeuristic", l>>)
    /\ l' = l + 1
    /\ UNCHANGED vars
Finish == l = NRows + 1 /\ PrintT(<<"V", "DONE", NRows>>) /\ l' = l + 1 /\ UNCHANGED vars
TraceNext == Consume \/ Finish
TraceSpec == TraceInit /\ [][TraceNext]_tvars
=============================================================================
