---------------------------- MODULE GuardsTrace ----------------------------
(***************************************************************************)
(* Validates recorded runs of the real aldy.genotype.genotype() against    *)
(* the PROPERTY layer of Guards (MustFail / NoCall / Explained /           *)
(* SimpleLine / PseudoDel) -- not against its implementation layer, so the *)
(* verdict does not depend on how the code orders or words its guards.     *)
(*                                                                         *)
(* One ndjson row = one (run, gene): the facts the harness computed from   *)
(* the reads it wrote, and what came back.                                 *)
(*   id, input, route, outkind, multi                                       *)
(*   locusReads, geneReads, pseudoReads     eligible reads overlapping ... *)
(*   covSum, covN      aligned bases / distinct covered positions of the   *)
(*                     eligible reads of the locus                         *)
(*                     (average_coverage = covSum / (covN + 0.1))          *)
(*   minCenti          min_avg_coverage * 100                              *)
(*   neutralReads, neutralBases, neutralIn, neutralLen                      *)
(*   pseudoBases, pseudoLen, pseudoCovered, delName                         *)
(*   err ("" | exception type), msg (has a message), raised, logged        *)
(*   nres, sols [alleles, cn, dip], calls (calls found in the output text) *)
(*   lines (simple format: fields of the lines of this gene), terminated,  *)
(*   sample, gene                                                          *)
(***************************************************************************)
EXTENDS Guards, Json, IOUtils

TraceLog == ndJsonDeserialize(IOEnv.TRACE_FILE)
N == Len(TraceLog)

(* ---- recorded row -> (facts, outcome) of the semantic layer ------------- *)
(* avg < min  <=>  covSum / (covN + 0.1) < minCenti / 100                    *)
(*            <=>  1000 * covSum < minCenti * (10 * covN + 1)                *)
PseudoNormal(ev) ==          \* pseudogene completely covered at the depth of the neutral region (+-25%)
    /\ ev.delName # "" /\ ev.pseudoLen > 0 /\ ev.pseudoCovered = ev.pseudoLen /\ ev.neutralIn > 0
    /\ 4 * ev.pseudoBases * ev.neutralLen >= 3 * ev.neutralIn * ev.pseudoLen
    /\ 4 * ev.pseudoBases * ev.neutralLen <= 5 * ev.neutralIn * ev.pseudoLen
FactsOf(ev) ==
    [input |-> ev.input, route |-> ev.route, out |-> ev.outkind, multi |-> ev.multi,
     locusReads |-> ev.locusReads,
     avg |-> 1000 * ev.covSum, min |-> ev.minCenti * (10 * ev.covN + 1),
     neutralReads |-> ev.neutralReads,
     neutralDepth |-> IF ev.neutralLen > 0 THEN ev.neutralBases \div ev.neutralLen ELSE 0,
     pseudoOnly |-> ev.geneReads = 0 /\ ev.pseudoReads > 0 /\ PseudoNormal(ev),
     cnLow |-> FALSE]

IsDeletionCall(ev, s) ==     \* no gene copy carries an allele; both haplotypes are the deletion allele
    /\ s.alleles = <<>> /\ s.cn = <<>>
    /\ Len(s.dip) >= 1 /\ \A i \in DOMAIN s.dip : s.dip[i] = ev.delName
ReportOf(ev) ==
    IF ev.nres = 0 /\ ev.calls = 0 THEN <<>>
    ELSE IF ev.nres > 0 /\ \A i \in DOMAIN ev.sols : IsDeletionCall(ev, ev.sols[i]) THEN <<"del">>
    ELSE <<"alleles">>

RECURSIVE Flatten(_)
Flatten(ss) == IF ss = <<>> THEN <<>> ELSE Head(ss) \o Flatten(Tail(ss))
LineTokens(ev, fs) ==
    [i \in DOMAIN fs |->
        IF i = 1 /\ fs[i] = ev.sample THEN "S"
        ELSE IF i = 2 /\ fs[i] = ev.gene THEN "G"
        ELSE IF fs[i] = "" THEN "" ELSE "C"]
Strip(s) == SelectSeq(s, LAMBDA t : t # "")
OutOf(ev) ==
    IF ev.outkind = "simple" THEN
        Flatten([i \in DOMAIN ev.lines |->
            Strip(LineTokens(ev, ev.lines[i]))
            \o (IF i < Len(ev.lines) \/ ev.terminated THEN <<"NL">> ELSE <<>>)])
    ELSE IF ev.calls > 0 THEN <<"C">> ELSE <<>>
OutcomeOf(ev) ==
    [report |-> ReportOf(ev), err |-> ev.err, raised |-> ev.raised, logged |-> ev.logged, out |-> OutOf(ev)]

Violated(ev) ==
    LET f == FactsOf(ev)
        o == OutcomeOf(ev)
    IN  (IF ev.err \notin {"", "AldyException"} THEN {"NonAldyExceptionRaised"} ELSE {})
        \cup (IF ~NoCall(f, o) THEN {"NoCallFromNoData"} ELSE {})
        \cup (IF ev.err \in {"", "AldyException"} /\ ~(Explained(f, o) /\ (ev.err # "" => ev.msg /\ ev.nres = 0))
              THEN {"ErrorIsExplained"} ELSE {})
        \cup (IF ~SimpleLine(f, o) THEN {"SimpleOutputEmptyLine"} ELSE {})
        \cup (IF ~PseudoDel(f, o) THEN {"PseudogeneOnlyIsDeletion"} ELSE {})

(* Each step loads one recorded run into the state variables of Guards (the recorded END state of   *)
(* that run) and judges it; `l` walks the file.                                                     *)
VARIABLE l
tvars == <<vars, l>>
Init0 ==
    /\ l = 1 /\ facts = <<>> /\ pc = "load" /\ struct = "" /\ report = <<>> /\ err = ""
    /\ raised = FALSE /\ logged = FALSE /\ out = <<>>
Step ==
    /\ l <= N
    /\ LET ev == TraceLog[l]
           f == FactsOf(ev)
           o == OutcomeOf(ev)
       IN /\ facts' = f /\ report' = o.report /\ err' = o.err /\ raised' = o.raised /\ logged' = o.logged /\ out' = o.out
          /\ pc' = (IF ev.err = "" THEN "done" ELSE "failed") /\ struct' = ""
          /\ \A c \in Violated(ev) : PrintT(<<"V", ev.id, c, MustFail(f), PseudoApplies(f)>>)
    /\ l' = l + 1
Finish == l = N + 1 /\ PrintT(<<"V", "DONE", N>>) /\ l' = N + 2 /\ UNCHANGED vars
TraceSpec == Init0 /\ [][Step \/ Finish]_tvars
=============================================================================
