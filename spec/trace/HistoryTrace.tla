---------------------------- MODULE HistoryTrace ----------------------------
(***************************************************************************)
(* C14 binding (B): recorded executions of histories (one real Python      *)
(* process per process segment of a history) validated step by step with   *)
(* the monitors of History.tla.                                            *)
(*                                                                         *)
(* The file holds many traces (field tid; w = the world = the inputs they   *)
(* ran on), each a sequence of events, one per operation performed, in     *)
(* execution order:                                                        *)
(*   op      the operation record [k, a, g, n] of History (k also "Load",   *)
(*           "Reload" for the harness' own loads and the final comparison  *)
(*           with a fresh load)                                            *)
(*   seed    PYTHONHASHSEED of the process that executed it, ep = number   *)
(*           of debug-store perturbations so far                           *)
(*   db, ev  digests of ALL live Gene / Coverage objects AFTER the call    *)
(*   res     digest of the returned value + output text (exact), resS the  *)
(*           same without the scores, sc the scores in units of 1e-6       *)
(*   per     per-gene (per-candidate) parts [g, res, resS, sc, err]        *)
(*   inner   objects the call loaded itself: digest right after loading    *)
(*           (a) and at return (b); cmp: comparable with the harness' load *)
(*   multi   [pieces, reported, concat] of a multi-gene run                *)
(* db / ev / memo / hashSeed / store are the variables of History; memo    *)
(* holds History result records whose tag is the recorded digest, so the   *)
(* SAME operators (KeyOf, Entries, MemoOK, RememberAll, SingleKey, CandKey)*)
(* decide.  A violated clause is printed <<"V", tid, clause, i, part>> and *)
(* the trace goes on: a catalogue that was changed taints its gene until   *)
(* the next process (results that read it are no longer compared).         *)
(***************************************************************************)
EXTENDS History, Json, IOUtils, SequencesExt

(* the constants of History play no role in trace validation (the alphabet is whatever was executed) *)
TrNone == {}
TrStruct == <<>>

TraceLog == ndJsonDeserialize(IOEnv.TRACE_FILE)
N == Len(TraceLog)

VARIABLES l, tid,
          wid,        \* the world (inputs) of the current trace: the monitor's memory is shared by all traces of a world
          aux,        \* key -> [resS, sc, seed, ep, src, tid] of the memoised result
          tfirst,     \* key -> [tag, ep, seed]: first result of THIS trace (to attribute a change to a store perturbation)
          load0,      \* [db, ev]: digest of the first load of every gene / sample in this process
          tainted     \* genes whose catalogue or evidence changed in this process
tvars == <<vars, l, tid, wid, aux, tfirst, load0, tainted>>

Abs(x) == IF x < 0 THEN 0 - x ELSE x
Tol == 10            \* 1e-5 in units of 1e-6: SOLVER precision band of a score-only difference
ScoreClose(a, b) == Len(a) = Len(b) /\ \A i \in DOMAIN a : Abs(a[i] - b[i]) <= Tol
Loaded(f) == DOMAIN f \ {"_"}
Changed(old, new) == {g \in Loaded(old) \cap Loaded(new) : old[g] # new[g]}

(* the event as History values *)
PartKey(e, p) == IF e.op.k = "Refine" THEN CandKey(p.g) ELSE SingleKey(p.g, e.op.a)
Part(e, p) == [of |-> PartKey(e, p), tag |-> p.res, d |-> 0, e |-> 0, x |-> 0]
Res(e) == IF e.op.k = "Genotype"           \* the same shape as the part of a multi-gene run (History!SingleOf)
          THEN SingleOf([of |-> KeyOf(e.op), tag |-> e.res, d |-> 0, e |-> 0, x |-> 0])
          ELSE [of |-> KeyOf(e.op), tag |-> e.res, d |-> <<>>, e |-> <<>>, x |-> 0,
                per |-> [i \in DOMAIN e.per |-> Part(e, e.per[i])]]
AuxOf(e, key) ==
    LET ps == {i \in DOMAIN e.per : PartKey(e, e.per[i]) = key}
    IN IF ps = {} \/ key = KeyOf(e.op)
         THEN [resS |-> e.resS, sc |-> e.sc, seed |-> e.seed, ep |-> e.ep, src |-> e.op.k, i |-> e.i, tid |-> e.tid]
         ELSE LET p == e.per[CHOOSE i \in ps : TRUE]
              IN [resS |-> p.resS, sc |-> p.sc, seed |-> e.seed, ep |-> e.ep, src |-> e.op.k, i |-> e.i, tid |-> e.tid]

TagOf(e, key) == IF key = KeyOf(e.op) THEN e.res
                 ELSE e.per[CHOOSE i \in DOMAIN e.per : PartKey(e, e.per[i]) = key].res

(* which clause a result that differs from the memoised one violates *)
Classify(e, key) ==
    LET a0 == aux[key]
        a1 == AuxOf(e, key)
    IN IF key.k = "RefineCand" THEN
            \* the low-order score digits carry the construction-order tie-break weights of minor.py:446-452, which
            \* follow the order of the pooled allele list: same assignment + scores within 1e-5 is not decided here
            (IF a0.resS = a1.resS /\ ScoreClose(a0.sc, a1.sc) THEN "UNDECIDED:RefinementScoreDigits"
             ELSE "RefinementIndependent")
       ELSE IF a0.seed # a1.seed THEN
            (IF a0.resS = a1.resS /\ ScoreClose(a0.sc, a1.sc) THEN "ScoreBitsDependOnHashSeed"
             ELSE "DeterministicAcrossHashSeeds")
       ELSE IF key.k = "Genotype" /\ (e.op.k = "GenotypeMulti" \/ a0.src = "GenotypeMulti") /\ e.op.k # a0.src
            THEN "MultiIsUnionOfSingles"
       ELSE IF key \in DOMAIN tfirst /\ tfirst[key].seed = a1.seed /\ tfirst[key].ep # a1.ep /\ tfirst[key].tag # TagOf(e, key)
            THEN "StoreIsWriteOnly"      \* same process, same call, only the debug store was perturbed in between
       ELSE "Deterministic"

Reads(e) == SeqRange(e.op.g)
Compared(e) == e.op.k \in ResultOps /\ e.raised = "" /\ (e.op.k = "Refine" \/ Reads(e) \cap tainted = {})
Mismatch(e) == IF Compared(e)
               THEN {kv \in Entries(e.op, Res(e)) : ~MemoOK(memo, kv[1], kv[2])}
               ELSE {}

(* a multi-gene run: the pieces of the output are exactly the genes that did not fail, in list order *)
MultiShapeOK(e) ==
    LET ok == SelectSeq(e.per, LAMBDA p : ~p.err)
    IN /\ Len(e.per) = Len(e.op.g)
       /\ \A i \in DOMAIN e.per : e.per[i].g = e.op.g[i]
       /\ e.multi.pieces = [i \in DOMAIN ok |-> ok[i].g]
       /\ SeqRange(e.multi.reported) = {ok[i].g : i \in DOMAIN ok}
       /\ e.multi.concat

InnerBad(e, t) == {i \in DOMAIN e.inner : e.inner[i].t = t /\ e.inner[i].a # e.inner[i].b}
InnerFresh(e) == {i \in DOMAIN e.inner :
                    LET x == e.inner[i]
                        f == IF x.t = "db" THEN load0.db ELSE load0.ev
                    IN x.cmp /\ x.g \in DOMAIN f /\ x.g \notin tainted /\ f[x.g] # x.a}

Clauses(e) ==    \* set of <<clause, part>>
    (IF e.raised # "" /\ Reads(e) \cap tainted = {} THEN {<<"OpRaised", 0>>} ELSE {})
    \cup (IF Changed(db, e.db) # {} \/ InnerBad(e, "db") # {} THEN {<<"DbUntouched", 0>>} ELSE {})
    \cup (IF Changed(ev, e.ev) # {} \/ InnerBad(e, "ev") # {} THEN {<<"EvUntouched", 0>>} ELSE {})
    \cup (IF InnerFresh(e) # {} THEN {<<"EqualsFreshLoad", 0>>} ELSE {})
    \cup (IF e.op.k = "Reload" /\ \E g \in Loaded(e.fresh_db) \ tainted : g \in DOMAIN db /\ e.fresh_db[g] # e.db[g]
            THEN {<<"DbUntouched", 1>>} ELSE {})
    \cup (IF e.op.k = "Reload" /\ \E g \in Loaded(e.fresh_ev) \ tainted : g \in DOMAIN ev /\ e.fresh_ev[g] # e.ev[g]
            THEN {<<"EvUntouched", 1>>} ELSE {})
    \cup {<<Classify(e, kv[1]), IF kv[1] = KeyOf(e.op) THEN 0 ELSE
                                  (CHOOSE i \in DOMAIN e.per : PartKey(e, e.per[i]) = kv[1])>> : kv \in Mismatch(e)}
    \cup (IF e.op.k = "GenotypeMulti" /\ e.raised = "" /\ ~MultiShapeOK(e) THEN {<<"MultiIsUnionOfSingles", 0>>} ELSE {})

Ev == TraceLog[l]
Empty == [x \in {"_"} |-> ""]

TraceInit ==
    /\ l = 1 /\ tid = -1 /\ wid = -1
    /\ db = Empty /\ ev = Empty /\ memo = <<>> /\ store = 0 /\ hashSeed = 0 /\ hist = <<>>
    /\ last = [op |-> NoOp, res |-> NoRes]
    /\ aux = <<>> /\ tfirst = <<>> /\ load0 = [db |-> Empty, ev |-> Empty] /\ tainted = {}

(* first event of another trace: a new process; the monitor's memory is kept as long as the world is the same *)
(* (results are functions of the arguments, whatever ran before and in whichever process)                      *)
NewTrace ==
    /\ l <= N /\ Ev.tid # tid
    /\ tid' = Ev.tid /\ wid' = Ev.w
    /\ memo' = IF Ev.w = wid THEN memo ELSE <<>>
    /\ aux' = IF Ev.w = wid THEN aux ELSE <<>>
    /\ tfirst' = <<>>
    /\ db' = Empty /\ ev' = Empty /\ store' = 0 /\ hashSeed' = Ev.seed
    /\ load0' = [db |-> Empty, ev |-> Empty] /\ tainted' = {}
    /\ UNCHANGED <<l, hist, last>>

(* FreshProcess(seed): a new interpreter; the monitor's memory survives *)
Restart ==
    /\ l <= N /\ Ev.tid = tid /\ Ev.op.k = "FreshProcess"
    /\ hashSeed' = Ev.op.n
    /\ db' = Empty /\ ev' = Empty /\ load0' = [db |-> Empty, ev |-> Empty] /\ tainted' = {}
    /\ last' = [op |-> Ev.op, res |-> NoRes]
    /\ l' = l + 1
    /\ UNCHANGED <<tid, wid, memo, aux, tfirst, store, hist>>

AddFirst(f, g) == [x \in DOMAIN f \cup DOMAIN g |-> IF x \in DOMAIN f THEN f[x] ELSE g[x]]
Step ==
    /\ l <= N /\ Ev.tid = tid /\ Ev.op.k # "FreshProcess"
    /\ LET e == Ev
           cs == Clauses(e)
           ent == IF Compared(e) THEN Entries(e.op, Res(e)) ELSE {}
           new == {kv \in ent : kv[1] \notin DOMAIN memo}
       IN /\ Cardinality({PrintT(<<"V", tid, c[1], e.i, c[2]>>) : c \in cs}) >= 0
          /\ last' = [op |-> e.op, res |-> Res(e)]
          /\ memo' = RememberAll(memo, ent)
          /\ aux' = [key \in DOMAIN aux \cup {kv[1] : kv \in new} |->
                        IF key \in DOMAIN aux THEN aux[key] ELSE AuxOf(e, key)]
          /\ tfirst' = [key \in DOMAIN tfirst \cup {kv[1] : kv \in ent} |->
                           IF key \in DOMAIN tfirst THEN tfirst[key]
                           ELSE [tag |-> TagOf(e, key), ep |-> e.ep, seed |-> e.seed]]
          /\ tainted' = tainted \cup Changed(db, e.db) \cup Changed(ev, e.ev)
                          \cup {e.inner[i].g : i \in InnerBad(e, "db") \cup InnerBad(e, "ev")}
          /\ db' = e.db /\ ev' = e.ev
          /\ load0' = [db |-> AddFirst(load0.db, e.db), ev |-> AddFirst(load0.ev, e.ev)]
          /\ store' = e.ep /\ hashSeed' = e.seed
    /\ l' = l + 1
    /\ UNCHANGED <<tid, wid, hist>>

Finish == l = N + 1 /\ PrintT(<<"V", "DONE", N>>) /\ l' = N + 2 /\ UNCHANGED <<vars, tid, wid, aux, tfirst, load0, tainted>>

TraceNext == NewTrace \/ Restart \/ Step \/ Finish
TraceSpec == TraceInit /\ [][TraceNext]_tvars

(* the monitors of History hold on every step the trace spec ACCEPTED silently: re-stated as an invariant on *)
(* the monitor's memory -- a key is memoised with the value it was first seen with                           *)
TraceInv == DOMAIN aux = DOMAIN memo
=============================================================================
