--------------------------- MODULE PipelineTrace ---------------------------
(***************************************************************************)
(* Trace validation of real genotype() runs against Pipeline (C10).        *)
(* Events of one run (field tid), in order:                                *)
(*   begin   gapU                                                          *)
(*   cn      sols: Seq([key, score]) in the order the structures were      *)
(*           processed                                                     *)
(*   major   cnkey, sols: Seq([key, raw])      one per structure           *)
(*   selmajor passed: Seq([idx, score]) the major candidates handed to the *)
(*           refinement (idx into the concatenated major results) with the *)
(*           scores they carried                                           *)
(*   minor   sols: Seq([key, maj, raw, carried]) what the refinement returned*)
(*   report  err: "" or the stage that failed; sols: Seq([idx, final,      *)
(*           chain]) idx into the refinement results; out: [simple,...]    *)
(* Every event must be explained by the corresponding Pipeline action;     *)
(* logged scores must agree with the scores Pipeline derives (+-Tol).      *)
(* Candidates within Tol of a selection threshold make the run UNDECIDED.  *)
(***************************************************************************)
EXTENDS Pipeline, Json, IOUtils

TraceLog == ndJsonDeserialize(IOEnv.TRACE_FILE)
N == Len(TraceLog)
Tol == 3

VARIABLES l, tid, verdict      \* verdict: "" while the run is consistent, else the first failed clause
tvars == <<vars, l, tid, verdict>>
Ev == TraceLog[l]

Fail(clause) ==
    /\ verdict' = (IF verdict = "" THEN clause ELSE verdict)
    /\ UNCHANGED vars
Near(x, t) == Abs(x - t) <= Tol

TraceInit ==
    /\ l = 1 /\ tid = "" /\ verdict = ""
    /\ gapU = 0 /\ pc = "idle" /\ cnS = <<>> /\ majS = <<>> /\ selMaj = <<>> /\ minS = <<>>
    /\ report = <<>> /\ err = "" /\ todo = 0

Begin ==
    /\ Ev.k = "begin"
    /\ IF tid = "" \/ verdict = "" THEN TRUE ELSE PrintT(<<"V", tid, verdict>>)
    /\ tid' = Ev.tid /\ verdict' = ""
    /\ gapU' = Ev.gapU /\ pc' = "cn" /\ cnS' = <<>> /\ majS' = <<>> /\ selMaj' = <<>> /\ minS' = <<>>
    /\ report' = <<>> /\ err' = "" /\ todo' = 0

Skip == verdict # "" /\ Ev.k # "begin" /\ UNCHANGED <<vars, verdict, tid>>

OnCN ==
    /\ verdict = "" /\ Ev.k = "cn"
    /\ IF pc # "cn" THEN Fail("StageOrder")
       ELSE IF ENABLED EstimateCN(Ev.sols) THEN EstimateCN(Ev.sols) /\ UNCHANGED verdict
       ELSE Fail("BestStructureFirst")
    /\ UNCHANGED tid

OnMajor ==
    /\ verdict = "" /\ Ev.k = "major"
    /\ IF pc # "major" \/ todo > Len(cnS) THEN Fail("StageOrder")
       ELSE IF Ev.cnkey # cnS[todo].key THEN Fail("StructuresProcessedInOrder")
       ELSE EstimateMajor(Ev.sols) /\ UNCHANGED verdict
    /\ UNCHANGED tid

(* the refinement stage was called: first explain the list it was handed (SelectMajor) *)
SelOrder == [k \in DOMAIN Ev.passed |-> Ev.passed[k].idx]
MajorEdge == \E i \in DOMAIN majS : Near(majS[i].score - MinMajor - GapU, PrecU)
OnSelMajor ==
    /\ verdict = "" /\ Ev.k = "selmajor"
    /\ IF pc # "major" \/ todo # Len(cnS) + 1 THEN Fail("StageOrder")
       ELSE IF Len(majS) = 0 THEN Fail("RefinedAlthoughNoMajorCandidate")
       ELSE IF \E k \in DOMAIN Ev.passed : Ev.passed[k].idx \notin DOMAIN majS THEN Fail("UnknownMajorCandidate")
       ELSE IF \E k \in DOMAIN Ev.passed : ~Near(Ev.passed[k].score, majS[Ev.passed[k].idx].score) THEN Fail("MajorScoreCarriesStructureDifference")
       ELSE IF MajorEdge THEN Fail("UNDECIDED:SelectionEdge")
       ELSE IF ~ENABLED SelectMajor(SelOrder) THEN
            (IF SeqToSet(SelOrder) # {i \in DOMAIN majS : MajorSelected(i)} THEN Fail("MajorCandidatesWithinGap")
             ELSE Fail("MajorBestFirst"))
       ELSE SelectMajor(SelOrder) /\ UNCHANGED verdict
    /\ UNCHANGED tid

OnMinor ==
    /\ verdict = "" /\ Ev.k = "minor"
    /\ IF pc # "minor" THEN Fail("StageOrder")
       ELSE
         LET carriedOf(k) == Ev.sols[k].raw + majS[Ev.sols[k].maj].score - MinSelMajor
             cnOf(k) == cnS[majS[Ev.sols[k].maj].cn].score
             finalOf(k) == ((2 * (carriedOf(k) \div 10) * ((cnOf(k) + U) \div 10) + ((MinCN + U) \div 10))
                              \div (2 * ((MinCN + U) \div 10))) * 10
             sols == [k \in DOMAIN Ev.sols |->
                        [key |-> Ev.sols[k].key, maj |-> Ev.sols[k].maj, raw |-> Ev.sols[k].raw,
                         carried |-> carriedOf(k), final |-> finalOf(k)]]
         IN
         IF \E k \in DOMAIN Ev.sols : Ev.sols[k].maj \notin SeqToSet(selMaj) THEN Fail("RefinedOnlyFromSelected")
         ELSE IF \E k \in DOMAIN Ev.sols : ~Near(Ev.sols[k].carried, carriedOf(k)) THEN Fail("MinorScoreCarriesMajorDifference")
         ELSE IF \E k \in DOMAIN Ev.sols : carriedOf(k) > 40 * U \/ cnOf(k) > 20 * U THEN Fail("UNDECIDED:ScoreTooLarge")
         ELSE IF ~ENABLED EstimateMinor(sols) THEN Fail("EstimateMinor")
         ELSE EstimateMinor(sols) /\ UNCHANGED verdict
    /\ UNCHANGED tid

ChainOK(ch) ==
    /\ ch.copy_majors = ch.major_alleles           \* minors refine majors one to one (sorted lists)
    /\ ch.allele_cfgs = ch.cn_struct               \* configurations match the structure copy for copy
    /\ ch.dip_sorted = [i \in 1..ch.ncopies |-> i - 1]   \* the diplotype lists each copy exactly once
(* a candidate whose distance to the selection threshold is within the rounding of the recorded (rescaled) scores:      *)
(* the code compares floats (0.31 - 0.3 < 0.01 is TRUE in binary floating point), the spec integers                    *)
FinalEdge == \E i \in DOMAIN minS : Abs(minS[i].final - MinFinal - GapU - PrecU) <= Tol + 10
RepOrder == [k \in DOMAIN Ev.sols |-> Ev.sols[k].idx]
OnReport ==
    /\ verdict = "" /\ Ev.k = "report"
    /\ IF Ev.err # "" THEN
          \* the run ended with an error: legal iff Pipeline is (or gets) in "failed" with the same stage
          (IF Len(Ev.sols) # 0 \/ Ev.has_result THEN Fail("ErrorMeansNoReport")
           ELSE IF Ev.errtype # "AldyException" THEN Fail("ErrorIsAldyException")
           ELSE IF pc = "failed" THEN UNCHANGED <<vars, verdict>>
           ELSE IF pc = "cn" /\ Ev.stage = "cn" THEN UNCHANGED <<vars, verdict>>      \* estimate_cn raised / returned nothing
           ELSE IF pc = "major" /\ todo = Len(cnS) + 1 /\ Len(majS) = 0 THEN UNCHANGED <<vars, verdict>>
           ELSE IF Ev.stage = "input" THEN UNCHANGED <<vars, verdict>>              \* rejected before the stages (C19)
           ELSE Fail("ErrorAlthoughCandidatesExist"))
       ELSE IF pc = "failed" THEN Fail("ErrorMeansNoReport")
       ELSE IF pc # "final" THEN Fail("ReportMeansAllStagesNonEmpty")
       ELSE IF \E k \in DOMAIN Ev.sols : Ev.sols[k].idx \notin DOMAIN minS THEN Fail("ReportedNotACandidate")
       ELSE IF \E k \in DOMAIN Ev.sols : ~ChainOK(Ev.sols[k].chain) THEN Fail("ChainConsistent")
       ELSE IF \E k \in DOMAIN Ev.sols :
                ~RescaleOK(Ev.sols[k].final, minS[Ev.sols[k].idx].carried, cnS[majS[minS[Ev.sols[k].idx].maj].cn].score)
            THEN Fail("FinalScoreRescaled")
       ELSE IF FinalEdge THEN Fail("UNDECIDED:SelectionEdge")
       ELSE IF ~ENABLED SelectFinal(RepOrder) THEN
            (IF SeqToSet(RepOrder) # {i \in DOMAIN minS : FinalSelected(i)} THEN Fail("ReportIsArgminBand")
             ELSE IF Len(RepOrder) # Cardinality(SeqToSet(RepOrder)) THEN Fail("NoDupReport")
             ELSE Fail("BestFirst"))
       ELSE SelectFinal(RepOrder) /\ UNCHANGED verdict
    /\ UNCHANGED tid

Step == l <= N /\ (Begin \/ Skip \/ OnCN \/ OnMajor \/ OnSelMajor \/ OnMinor \/ OnReport) /\ l' = l + 1
Finish ==
    /\ l = N + 1
    /\ IF verdict = "" THEN TRUE ELSE PrintT(<<"V", tid, verdict>>)
    /\ PrintT(<<"V", "DONE", N>>) /\ l' = N + 2 /\ UNCHANGED <<vars, tid, verdict>>
TraceSpec == TraceInit /\ [][Step \/ Finish]_tvars

TraceInv == pc \in {"final", "done", "failed"} => (CarryOver /\ RefinedOnlyFromSelected /\ ErrorMeansNoReport /\ ReportIsArgminBand /\ BestFirst)
=============================================================================
