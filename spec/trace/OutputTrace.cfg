CONSTANTS
  VT = 0
  bug = "none"
SPECIFICATION TraceSpec
CHECK_DEADLOCK FALSE
