CONSTANT Ops <- TrNone
CONSTANT AllGenes <- TrNone
CONSTANT Failing <- TrNone
CONSTANT Struct <- TrStruct
CONSTANT MaxLen = 0
CONSTANT Hazards <- TrNone
SPECIFICATION TraceSpec
INVARIANT TraceInv
CHECK_DEADLOCK FALSE
