SPECIFICATION TraceSpec
CHECK_DEADLOCK FALSE
