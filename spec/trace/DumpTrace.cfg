CONSTANT Pos = {}
CONSTANT InBounds = {}
CONSTANT MutOps = {}
CONSTANT InsOps = {}
CONSTANT Quals = {}
CONSTANT ParamNames = {}
CONSTANT ResetParams = {}
CONSTANT Default = 0
CONSTANT AliasNorm = FALSE
CONSTANT PhaseMin = 1
CONSTANT UpdateOnDump = TRUE
SPECIFICATION TraceSpec
CHECK_DEADLOCK FALSE
