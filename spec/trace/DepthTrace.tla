----------------------------- MODULE DepthTrace -----------------------------
(***************************************************************************)
(* Trace validation of the real normalisation pipeline against Depth (C07).*)
(* Line 1: gene context G (wide region + regions).  Every further line is  *)
(* one run of the real code:                                               *)
(*   sample  reads of the sample BAM (with multiplicities)                 *)
(*   pself / profile   the profile sample's reads (pself: same as sample)  *)
(*   cn      neutral region <<lo, hi>>                                     *)
(*   role    "base" | "dup" | "genedup" | "self" | "other", kk, fam        *)
(*   rec     what the code produced: err ("" | "noreads" | "lowcov" | ...),*)
(*           s[j], ref, p[j], nv (integers), rc6[j] = round(1e6 *          *)
(*           region_coverage), two[j] = (region_coverage == 2.0), cnsol    *)
(* Depth's operators recompute everything from the read lists; values are  *)
(* compared exactly (sums) or within TOL units of 1e-6 (floats).           *)
(***************************************************************************)
EXTENDS Depth, Json, IOUtils, SequencesExt

TraceLog == ndJsonDeserialize(IOEnv.TRACE_FILE)
N == Len(TraceLog)
TraceG == TraceLog[1]
TOL == 2

VARIABLES l, base      \* base: fam -> record of the family's base run
tvars == <<l, base, dvars>>
Ev == TraceLog[l]

RECURSIVE Gcd(_, _), Digits(_, _, _)
Pow10(n) == CASE n = 0 -> 1 [] n = 1 -> 10 [] n = 2 -> 100 [] n = 3 -> 1000 [] n = 4 -> 10000 [] n = 5 -> 100000 [] OTHER -> 1000000
Gcd(a, b) == IF b = 0 THEN a ELSE Gcd(b, a % b)
G1(a, b) == IF Gcd(a, b) = 0 THEN 1 ELSE Gcd(a, b)
(* floor(1e6 * (2 * nv * s) / (ref * p)) by reduction and long division (32-bit safe for the harness's sizes) *)
Digits(r, den, n) == IF n = 0 THEN 0 ELSE ((r * 10) \div den) * Pow10(n - 1) + Digits((r * 10) % den, den, n - 1)
Fixed6(nv, ref, s, p) ==
    LET g1 == G1(nv, ref)   nv1 == nv \div g1   ref1 == ref \div g1
        g2 == G1(2 * s, p)  s1 == (2 * s) \div g2   p1 == p \div g2
        g3 == G1(nv1, p1)   nv2 == nv1 \div g3   p2 == p1 \div g3
        g4 == G1(s1, ref1)  s2 == s1 \div g4   ref2 == ref1 \div g4
        num == nv2 * s2     den == ref2 * p2
    IN (num \div den) * 1000000 + Digits(num % den, den, 6)
Abs(x) == IF x < 0 THEN 0 - x ELSE x
Near(a, b, tol) == Abs(a - b) <= tol

SameReads(a, b, f(_)) == Len(a) = Len(b) /\ \A i \in DOMAIN a :
    /\ a[i].start = b[i].start /\ a[i].cigar = b[i].cigar /\ a[i].supp = b[i].supp /\ a[i].unmapped = b[i].unmapped
    /\ a[i].mult = f(i)

Verdict(ev, bs) ==
    LET rs == ev.sample
        ps == IF ev.pself THEN ev.sample ELSE ev.profile
        cn == ev.cn
        rec == ev.rec
        J == DOMAIN G.regions
    IN IF Rejected(rs, cn) THEN (IF rec.err = "noreads" THEN "" ELSE "EmptyNeutralRejected")
       ELSE IF rec.err = "noreads" THEN "EmptyNeutralRejected(spurious)"
       ELSE IF rec.err = "lowcov" THEN "~undecided"
       ELSE IF rec.err # "" THEN "UnexpectedError"
       ELSE IF \E j \in J : rec.p[j] # P(ps, G.regions[j]) THEN "ProfileSum"
       ELSE IF rec.nv # NV(ps, cn) THEN "ProfileNeutralSum"
       ELSE IF \E j \in J : rec.s[j] # S(rs, G.regions[j]) THEN "RegionSum"
       ELSE IF rec.ref # RefSum(rs, cn) THEN "NeutralSum"
       ELSE IF \E j \in J : ~Near(rec.rc6[j], IF rec.p[j] = 0 THEN 0 ELSE Fixed6(rec.nv, rec.ref, rec.s[j], rec.p[j]), TOL) THEN "Norm"
       ELSE IF ev.pself /\ Clean(rs, cn) /\ \E j \in J : rec.p[j] # 0 /\ ~rec.two[j] THEN "SelfProfileIsTwo"
       ELSE IF ev.role = "dup" THEN
            LET b == bs[ev.fam] IN
            IF ~SameReads(rs, b.sample, LAMBDA i : ev.kk * b.sample[i].mult) THEN "Harness/NotADup"
            ELSE IF \E j \in J : ~Near(rec.rc6[j], b.rec.rc6[j], 2 * TOL) THEN "ScaleInvariant"
            ELSE IF rec.cnsol # b.rec.cnsol THEN "StructureDepthFree"
            ELSE ""
       ELSE IF ev.role = "genedup" THEN
            LET b == bs[ev.fam] IN
            IF ~SameReads(rs, b.sample, LAMBDA i : IF IsGeneRead(b.sample[i], cn) THEN ev.kk * b.sample[i].mult ELSE b.sample[i].mult)
                THEN "Harness/NotAGeneDup"
            ELSE IF Separated(b.sample, cn) /\ \E j \in J : ~Near(rec.rc6[j], ev.kk * b.rec.rc6[j], (ev.kk + 1) * TOL) THEN "GeneLinear"
            ELSE ""
       ELSE ""

TraceInit == l = 2 /\ base = <<>> /\ sam = <<>> /\ prof = <<>> /\ cnr = <<0, 0>> /\ DStart
Step ==
    /\ l <= N
    /\ LET v == Verdict(Ev, base) IN IF v = "" THEN TRUE ELSE PrintT(<<"V", Ev.id, v, l>>)
    /\ base' = IF Ev.role = "base" THEN (Ev.fam :> Ev) ELSE base
    /\ l' = l + 1
    /\ UNCHANGED dvars
Finish == l = N + 1 /\ PrintT(<<"V", "DONE", N>>) /\ l' = N + 2 /\ UNCHANGED <<base, dvars>>
TraceNext == Step \/ Finish
TraceSpec == TraceInit /\ [][TraceNext]_tvars
=============================================================================
