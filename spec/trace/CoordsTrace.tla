----------------------------- MODULE CoordsTrace -----------------------------
(***************************************************************************)
(* Trace validation of the real loader / indel consumers against Coords.   *)
(*                                                                         *)
(* Each row of IOEnv.TRACE_FILE is one independent observation:            *)
(*  k = "var"  : one written variant of one database under one build:      *)
(*      seq, g   window of gene.seq / of gene[a:b] as letters 0..5         *)
(*      r2c, c2r gene.ref_to_chr / chr_to_ref on the window as indexes     *)
(*               into g / seq (0 = unmapped)                               *)
(*      w        the variant as WRITTEN (parsed from the YAML without aldy)*)
(*      v        the LOADED record (key of gene.mutations) or Dropped      *)
(*      back     get_refseq() of the loaded variant, parsed; text_ok: the  *)
(*               string equals the written "<pos><op>"                     *)
(*      rv       the Variant(pos, ref, alt) handed to indelpost (has_rv)   *)
(*      keys     long-read equivalence keys that resolve to v (has_keys)   *)
(*      read_keys, read_hit  indels _parse_read reports for a read that    *)
(*               carries v, and how often v was credited (has_read)        *)
(*  k = "maps" : a whole small database: seq, strand, cig and the observed *)
(*               r2c, c2r, g -- compared with View()                       *)
(*  k = "infer": get_functional() of a novel exonic substitution: c, gref, *)
(*               galt, observed effect text and the table eff[r][b] of the *)
(*               effect of putting letter b at RefSeq index r              *)
(* Verdict(ev) is "" (accepted), "U:..." (nothing claimed) or the name of  *)
(* the first violated clause.                                              *)
(***************************************************************************)
EXTENDS Coords, Json, IOUtils, TLC

TraceLog == ndJsonDeserialize(IOEnv.TRACE_FILE)
N == Len(TraceLog)
VARIABLE l

VW(ev) == [seq |-> ev.seq, strand |-> ev.strand, r2c |-> ev.r2c, c2r |-> ev.c2r, g |-> ev.g]
Range2(s) == {s[i] : i \in 1..Len(s)}

IndelVerdict(ev, vw, v) ==
    IF ~InsertionAnchorAgrees(vw, v) THEN "InsertionAnchorAgrees"
    ELSE IF ev.has_rv /\ ev.rv # RealignVariant(vw, v) THEN "RealignAnchor"
    ELSE IF ev.has_keys /\ v.kind \in {"ins", "del"} /\ LongReadKey(RealignVariant(vw, v)) \notin Range2(ev.keys)
        THEN "LongReadKey"
    ELSE IF ev.has_keys /\ \E k \in Range2(ev.keys) :
                \/ k.kind # v.kind
                \/ CigarMeaning(vw.g, k) # ApplyGenome(vw.g, v) THEN "EqKeysSameHaplotype"
    \* a read carrying the loaded variant: what _parse_read reports is the long-read key, and the
    \* read is credited to this catalogued indel exactly once
    ELSE IF ev.has_read /\ ev.read_keys # <<LongReadKey(RealignVariant(vw, v))>> THEN "CigarReport"
    ELSE IF ev.has_read /\ ev.has_keys /\ ev.read_hit # 1 THEN "LongReadMatch"
    ELSE ""

VarVerdict(ev) ==
    LET vw == VW(ev)
        w  == ev.w
        v  == ev.v
    IN IF ~WellFormedW(vw.seq, w) THEN "WellFormedWritten"
       ELSE IF ~MapsMutuallyInverse(vw) THEN "MapsMutuallyInverse"
       ELSE IF ~LookupAgrees(vw) THEN "LookupAgrees"
       ELSE IF ~RefAlleleMatches(vw, w) THEN "RefAlleleMatches"
       \* the theorem is evaluated on the record the implementation loaded, independently of Conv
       ELSE IF v # Dropped /\ HasBlock(vw, w) /\ ~Theorem(vw, w, v) THEN "Theorem"
       ELSE IF v # Dropped /\ HasBlock(vw, w) /\ ~GenomeAlleleMatches(vw, v) THEN "GenomeAlleleMatches"
       ELSE IF v # Conv(vw, w) THEN "Conv"
       ELSE IF v = Dropped THEN (IF HasBlock(vw, w) THEN "DroppedThoughAligned" ELSE "U:Dropped")
       ELSE IF ~(ev.text_ok /\ ev.back = w /\ NotationRoundTrip(vw, w, v)) THEN "NotationRoundTrip"
       ELSE IF ~HasBlock(vw, w) THEN "U:FootprintOnGap"
       ELSE IF v.kind \in {"ins", "del", "delins"} THEN IndelVerdict(ev, vw, v)
       ELSE ""

MapsVerdict(ev) ==
    LET vw == View(ev.seq, ev.strand, ev.cig)
    IN IF vw.r2c # ev.r2c \/ vw.c2r # ev.c2r THEN "MapsFromAlignment"
       ELSE IF vw.g # ev.g THEN "LookupSequence"
       ELSE IF ~MapsMutuallyInverse(VW(ev)) THEN "MapsMutuallyInverse"
       ELSE ""

InferVerdict(ev) ==
    LET vw == VW(ev)
        s  == InferSub(vw, ev.c, ev.gref, ev.galt)
    IN IF s.pos = 0 THEN (IF ev.observed = "" THEN "" ELSE "InferredEffectUsesSameMap")
       ELSE IF vw.seq[s.pos] # s.ref THEN "U:NovelRefMismatch"
       ELSE IF ev.observed # ev.eff[s.pos][s.alt + 1] THEN "InferredEffectUsesSameMap"
       ELSE ""

Verdict(ev) ==
    CASE ev.k = "var"   -> VarVerdict(ev)
      [] ev.k = "maps"  -> MapsVerdict(ev)
      [] ev.k = "infer" -> InferVerdict(ev)
      [] OTHER -> "UnknownRow"

Init == l = 1
Next ==
    IF l <= N
    THEN /\ LET c == Verdict(TraceLog[l]) IN IF c = "" THEN TRUE ELSE PrintT(<<"V", TraceLog[l].id, c>>)
         /\ l' = l + 1
    ELSE /\ l = N + 1
         /\ PrintT(<<"V", "DONE", N>>)
         /\ l' = N + 2
Spec == Init /\ [][Next]_l
=============================================================================
