SPECIFICATION TSpec
CONSTANT RepairedRule = FALSE
CHECK_DEADLOCK FALSE
