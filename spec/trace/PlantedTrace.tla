--------------------------- MODULE PlantedTrace ---------------------------
EXTENDS Planted, Json, IOUtils
TraceLog == ndJsonDeserialize(IOEnv.TRACE_FILE)
N == Len(TraceLog)
VARIABLE l
Init == l = 1
Step ==
    /\ l <= N
    /\ LET v == PlantedVerdict(TraceLog[l]) IN IF v = "" THEN TRUE ELSE PrintT(<<"V", TraceLog[l].id, v>>)
    /\ l' = l + 1
Finish == l = N + 1 /\ PrintT(<<"V", "DONE", N>>) /\ l' = N + 2
Spec == Init /\ [][Step \/ Finish]_l
=============================================================================
