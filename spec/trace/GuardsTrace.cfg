CONSTANTS
  DepthGuardAlways = TRUE
  LocusByRegions = TRUE
  SimpleLineAlways = TRUE
  MaxAvg = 3
  Mins = {2}
SPECIFICATION TraceSpec
CHECK_DEADLOCK FALSE
