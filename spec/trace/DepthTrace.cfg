CONSTANT G <- TraceG
SPECIFICATION TraceSpec
CHECK_DEADLOCK FALSE
