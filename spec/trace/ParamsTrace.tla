----------------------------- MODULE ParamsTrace -----------------------------
(***************************************************************************)
(* Trace validation of C18 (binding B).  Every line of IOEnv.TRACE_FILE is *)
(* one real execution:                                                     *)
(*   id   identifier chosen by the harness                                 *)
(*   c    the case (route history) that was carried out - same shape as    *)
(*        Params!Case: wmode, w, opts, route, ex                           *)
(*   obs  what the real code did: st = "ok" (a Profile was built; vals =   *)
(*        the documented attributes as <<type, n, d, b, chars>>; an        *)
(*        attribute equal to the baseline Profile("x") is omitted - the    *)
(*        baseline itself is the first event, with all attributes, and is  *)
(*        validated against Params!Default like any other run),            *)
(*        "reject" (AldyException / logged error), "crash" (another        *)
(*        exception), "silent" (neither a Profile nor an error);           *)
(*        extra = attributes the Profile has that it should not have.      *)
(* The verdict is computed with Params!Sem / Params!ExpectedS, i.e. the    *)
(* operators the model checker related to the operational layer.           *)
(***************************************************************************)
EXTENDS Params, Json, IOUtils

TraceLog == ndJsonDeserialize(IOEnv.TRACE_FILE)
N == Len(TraceLog)
VARIABLE l

OV(x) == Val(x[1], x[2], x[3], x[4], x[5])
IsNum(v) == v.t \in {"int", "float"}
SameValue(e, v) ==
    \/ IsNum(e) /\ IsNum(v) /\ e.n * v.d = v.n * e.d
    \/ e.t = "bool" /\ v.t = "bool" /\ e.b = v.b
    \/ e.t = "str" /\ v.t = "str" /\ e.s = v.s

Priority == <<"MalformedRejected", "ExplicitOverridesOptions", "RoundTrip", "TakesGivenValue",
              "TypedAsDocumented", "UnknownIgnored", "OthersUntouched">>
First(S) == IF \E i \in DOMAIN Priority : Priority[i] \in S
            THEN Priority[CHOOSE i \in DOMAIN Priority : Priority[i] \in S /\ \A j \in 1..(i - 1) : Priority[j] \notin S]
            ELSE ""

(* where the value a documented name must take comes from, and how it was spelled *)
Src(c, s, n) == IF n \in s.X THEN "explicit" ELSE IF n \in s.O THEN (IF c.wmode # "none" THEN "written" ELSE "options") ELSE "default"
EffSp(c, s, n) == IF n \in s.X THEN KwOf(c.ex)[n]
                  ELSE IF n \in s.O THEN (IF c.wmode # "none" THEN KwOf(c.w)[n] ELSE KwOf(c.opts)[n])
                  ELSE SNone
WellShaped(ev) == /\ ev.c.wmode \in {"none", "cli", "api"} /\ ev.c.route \in {"none", "cli", "api"}
                  /\ UniqueNames(ev.c.w) /\ UniqueNames(ev.c.opts) /\ UniqueNames(ev.c.ex)
                  /\ (ev.c.wmode # "none" => ev.c.opts = <<>>)
R(cl, c, s, n) == [cl |-> cl, name |-> n, src |-> IF n = "" THEN "" ELSE Src(c, s, n),
                   sp |-> IF n = "" THEN SNone ELSE EffSp(c, s, n)]
Accept == [cl |-> "", name |-> "", src |-> "", sp |-> SNone]

(* [cl, name, src, sp]: violated clause ("" = accepted), offending parameter, its source and spelling *)
Verdict(ev) ==
    LET c   == ev.c
        s   == Sem(c)
        E   == ExpectedS(c, s)
        o   == ev.obs
        rej == o.st \in {"reject", "crash"}
        G   == s.X \cup s.O
        NV(n) ==
            LET e == E.vals[n]
                v == IF n \in DOMAIN o.vals THEN OV(o.vals[n]) ELSE Default[n]
            IN IF e.t = "unspec" THEN (IF v.t = ParamType[n] THEN "" ELSE "TypedAsDocumented")
               ELSE IF SameValue(e, v) THEN (IF v.t = e.t THEN "" ELSE "TypedAsDocumented")
               ELSE IF n \in s.X \cap s.O /\ s.po[n].t \in Types /\ SameValue(s.po[n], v) THEN "ExplicitOverridesOptions"
               ELSE IF n \in s.X THEN "TakesGivenValue"
               ELSE IF n \in s.O THEN (IF c.wmode # "none" THEN "RoundTrip" ELSE "TakesGivenValue")
               ELSE IF s.unknown # {} THEN "UnknownIgnored" ELSE "OthersUntouched"
        bad == {n \in Param : NV(n) # ""}
        cl  == First({NV(n) : n \in bad})
        mal == {n \in G : E.vals[n].t = "reject"} \cup {n \in s.W : s.pw[n].t = "reject"}
    IN IF ~WellShaped(ev) THEN R("MalformedEvent", c, s, "")
       ELSE IF o.st = "silent" THEN R("NoProfileNoError", c, s, "")
       ELSE IF E.st = "reject" THEN
            IF rej THEN Accept
            ELSE R("MalformedRejected", c, s, IF mal # {} THEN CHOOSE n \in mal : TRUE ELSE "")
       ELSE IF rej THEN
            IF E.st = "unspec" THEN Accept
            ELSE IF G = {} /\ s.unknown # {} THEN R("UnknownIgnored", c, s, "")
            ELSE IF c.wmode # "none" /\ s.X = {} THEN R("RoundTrip", c, s, IF G # {} THEN CHOOSE n \in G : TRUE ELSE "")
            ELSE R("TakesGivenValue", c, s, IF G # {} THEN CHOOSE n \in G : TRUE ELSE "")
       ELSE IF bad # {} THEN R(cl, c, s, CHOOSE n \in bad : NV(n) = cl)
       ELSE IF Len(o.extra) > 0 THEN R("UnknownIgnored", c, s, "")
       ELSE Accept

TraceInit == Init /\ l = 1        \* the variables of the operational layer stay at Init
Step ==
    /\ l <= N
    /\ LET v == Verdict(TraceLog[l]) IN
       \* two short tuples per rejection (TLC wraps values longer than a line); l identifies the event
       IF v.cl = "" THEN TRUE
       ELSE /\ PrintT(<<"V", l, v.cl, v.name>>)
            /\ PrintT(<<"V", l, "sp", v.src, v.sp.k, v.sp.n, v.sp.d, v.sp.b, Str(v.sp.cs)>>)
    /\ l' = l + 1 /\ UNCHANGED vars
Finish == l = N + 1 /\ PrintT(<<"V", "DONE", N>>) /\ l' = N + 2 /\ UNCHANGED vars
TraceNext == Step \/ Finish
TraceSpec == TraceInit /\ [][TraceNext]_<<vars, l>>
=============================================================================
