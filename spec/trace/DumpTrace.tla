------------------------------ MODULE DumpTrace ------------------------------
(***************************************************************************)
(* C17 trace validation.  A CASE is one real `aldy genotype FILE --debug   *)
(* PREFIX' run (through aldy.__main__.main, which builds PREFIX.tar.gz)    *)
(* followed by genotype() runs on the archive with the same parameters:    *)
(*   "debug"  one event per gene of the run: the evidence the real Sample  *)
(*            held (projected field by field), the recorded stage results, *)
(*            the components found in the archive for this gene            *)
(*   "replay" one event per gene per replay: the same projection of the    *)
(*            Sample built from the archive and of the results             *)
(*   "end"    the genes the archive contains                               *)
(* Clauses (definitions shared with DumpReplay.tla):                        *)
(*   SnapshotCoversReads       Source(f) is in the archive for every field *)
(*                             f some stage reads                          *)
(*   RestoreIsSnapshotInverse  FieldEq(f, evidence, evidence2) for every   *)
(*                             read field; the field is named              *)
(*   SameResult                res1 = res2 part by part (sample name,      *)
(*                             error, region depths, structures, major and *)
(*                             minor solutions, final solutions + scores,  *)
(*                             output text); the first differing part is   *)
(*                             named                                       *)
(*   EveryGeneReplayed         every gene in the archive was replayed      *)
(* Representation: coverage = sequence of <<pos, op, bag>> rows (bag = the *)
(* canonical text of the Counter of quality pairs), phases = sequence of   *)
(* [n |-> fragment name, sites |-> [pos |-> op]], other tables = sequences *)
(* of rows, every result part = sequence of canonical texts.               *)
(***************************************************************************)
EXTENDS DumpReplay, Json, IOUtils

TraceLog == ndJsonDeserialize(IOEnv.TRACE_FILE)
N == Len(TraceLog)
VARIABLES l, cur, base, seen
tvars == <<vars, l, cur, base, seen>>

ResParts == <<"name", "error", "load", "cn", "major", "minor", "final", "output">>

Say(e, clause, what) == PrintT(<<"V", e.id, clause, what>>)

CheckDebug(e) ==
    /\ IF EvFields \subseteq DOMAIN e.ev THEN TRUE ELSE Say(e, "BadCase", "fields")
    /\ IF \A st \in Stages : \A f \in Reads[st] : Source(f) \subseteq {e.dumpfields[i] : i \in DOMAIN e.dumpfields}
       THEN TRUE ELSE Say(e, "SnapshotCoversReads", "archive")

CheckReplay(e, b0) ==
    IF e.gene \notin DOMAIN b0 THEN Say(e, "BadCase", "nodebug")
    ELSE LET b == b0[e.gene]
             parts == {i \in DOMAIN ResParts : ~(e.partial /\ ResParts[i] = "output")}
             diff == {i \in parts : b.res[ResParts[i]] # e.res[ResParts[i]]}
         IN /\ \A f \in ReadFields : IF FieldEq(f, b.ev, e.ev) THEN TRUE ELSE Say(e, "RestoreIsSnapshotInverse", f)
            /\ IF diff = {} THEN TRUE
               ELSE Say(e, "SameResult", ResParts[CHOOSE i \in diff : \A j \in diff : i <= j])

CheckEnd(e, b0, s0) ==
    IF {e.archgenes[i] : i \in DOMAIN e.archgenes} \subseteq s0 /\ {e.archgenes[i] : i \in DOMAIN e.archgenes} = DOMAIN b0
    THEN TRUE ELSE Say(e, "EveryGeneReplayed", "genes")

TraceInit ==
    /\ l = 1 /\ cur = -1 /\ base = <<>> /\ seen = {}
    /\ pc = "trace" /\ sample = Nil /\ user = Nil /\ dropped = {} /\ evidence = Nil /\ dump = Nil
    /\ res1 = Nil /\ evidence2 = Nil /\ res2 = Nil

Step ==
    /\ l <= N
    /\ LET e == TraceLog[l]
           fresh == e.case # cur
           b0 == IF fresh THEN <<>> ELSE base
           s0 == IF fresh THEN {} ELSE seen
       IN /\ cur' = e.case
          /\ CASE e.k = "debug" -> CheckDebug(e) /\ base' = (e.gene :> e) @@ b0 /\ seen' = s0
               [] e.k = "replay" -> CheckReplay(e, b0) /\ base' = b0 /\ seen' = s0 \cup {e.gene}
               [] e.k = "end" -> CheckEnd(e, b0, s0) /\ base' = b0 /\ seen' = s0
               [] OTHER -> Say(e, "BadCase", "kind") /\ base' = b0 /\ seen' = s0
    /\ l' = l + 1 /\ UNCHANGED vars
Finish == l = N + 1 /\ PrintT(<<"V", "DONE", N>>) /\ l' = N + 2 /\ UNCHANGED <<vars, cur, base, seen>>
TraceSpec == TraceInit /\ [][Step \/ Finish]_tvars
=============================================================================
