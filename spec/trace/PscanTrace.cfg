SPECIFICATION TraceSpec
INVARIANT TraceInv
CHECK_DEADLOCK FALSE
