----------------------------- MODULE OutputTrace -----------------------------
(***************************************************************************)
(* Validation of text produced by the REAL writers (write_decomposition,   *)
(* write_vcf, and genotype()'s output dispatch) against Output.tla.        *)
(* The harness parses the text with a plain TSV / VCF reader into abstract *)
(* rows / records; the expected content is computed HERE from the abstract *)
(* solutions and the variant table of the variants involved.               *)
(*                                                                         *)
(* k = "list":    T, S, rows, f     one solution list: rows[j] = the parsed *)
(*                rows of write_decomposition(S[j]) (<<>> = not written),  *)
(*                f = the parsed text of write_vcf(S) (cols = <<>> and     *)
(*                recs = <<>> with novcf = TRUE: not written)              *)
(* k = "dispatch": ext, kind, nsols, nblocks   one output file of          *)
(*                genotype(): observed kind of the content, number of      *)
(*                solution blocks / sample columns / summary pairs         *)
(* k = "simple":  pairs, want       the summary line against the solutions *)
(*                                                                         *)
(* sets arrive as JSON arrays: ToCopy / ToSol convert.                     *)
(* Every deviation is printed: <<"V", id, clause, <<detail>>>>.            *)
(***************************************************************************)
EXTENDS Output, Json, IOUtils

TraceLog == ndJsonDeserialize(IOEnv.TRACE_FILE)
NRows == Len(TraceLog)
VARIABLE l
tvars == <<ovars, l>>

ToCopy(c) == [major |-> c.major, minor |-> c.minor, core |-> SeqSet(c.core), silent |-> SeqSet(c.silent),
              added |-> SeqSet(c.added), missing |-> SeqSet(c.missing)]
ToSol(s) == [sid |-> s.sid, dipl |-> s.dipl, copies |-> [i \in DOMAIN s.copies |-> ToCopy(s.copies[i])]]

Items(ev) ==
    CASE ev.k = "list" ->
            LET SS == [j \in DOMAIN ev.S |-> ToSol(ev.S[j])] IN
            UNION {{<<it[1], j, it[2], it[3], it[4]>> : it \in DecompItems(ev.T, SS[j], ev.rows[j])}
                   : j \in {j \in DOMAIN ev.rows : ~ev.nodecomp[j]}}
            \cup (IF ev.novcf THEN {} ELSE VcfItems(ev.T, SS, ev.f))
      [] ev.k = "dispatch" ->
            (IF ev.kind # KindOf(ev.ext) THEN {<<"Dispatch", ev.ext, ev.kind>>} ELSE {})
            \cup (IF ev.nblocks # ev.nsols THEN {<<"DispatchAllSolutions", ev.nblocks, ev.nsols>>} ELSE {})
      [] ev.k = "simple" ->
            (IF Len(ev.pairs) # Len(ev.want) THEN {<<"SimpleLine", 0>>} ELSE {})
            \cup {<<"SimpleLine", j>> : j \in {j \in DOMAIN ev.pairs \cap DOMAIN ev.want : ev.pairs[j] # ev.want[j]}}
      [] OTHER -> {<<"UnknownEvent">>}

TraceInit == l = 1 /\ S = <<>> /\ ext = "" /\ file = <<>> /\ pc = "trace" /\ done = 0
Consume ==
    /\ l <= NRows
    /\ LET ev == TraceLog[l] IN        \* (a set, not \A: TLC expands \A in an action recursively - stack depth)
            Cardinality({PrintT(<<"V", ev.id, it[1], it>>) : it \in Items(ev)}) <= 1
    /\ l' = l + 1
    /\ UNCHANGED ovars
Finish == l = NRows + 1 /\ PrintT(<<"V", "DONE", NRows>>) /\ l' = l + 1 /\ UNCHANGED ovars
TraceNext == Consume \/ Finish
TraceSpec == TraceInit /\ [][TraceNext]_tvars
=============================================================================
