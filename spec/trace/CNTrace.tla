------------------------------ MODULE CNTrace ------------------------------
(***************************************************************************)
(* Validation of recorded solve_cn_model / estimate_cn calls against       *)
(* CNModel (C03).  One ndjson row = one call: the case record of CNModel   *)
(* plus id, raised, result: Seq([score, cfgs: Seq(cfg index)]).            *)
(* All explanations (slot pair x extra copies x pseudogene copies) are     *)
(* enumerated and folded into structures.                                  *)
(***************************************************************************)
EXTENDS CNModel, Json, IOUtils

TraceLog == ndJsonDeserialize(IOEnv.TRACE_FILE)
N == Len(TraceLog)
VARIABLE l

(* s within (1+gap)*best, up to a margin m (units of the score) *)
GapDiff(c, s, best) == (s - best) * c.p.gapD - c.p.gapN * best
RS(c, r) == [g \in Cfgs(c) |-> CountIn(r.cfgs, g)]

Verdict(c) ==
    LET T    == TLCEval(Table(c))
        eps  == ObjEps(c) + 1
        R    == c.result
        ScoreOf(S) == MinSet({t[2] : t \in {u \in T : u[1] = S}})
        Known(S) == \E t \in T : t[1] = S
    IN
    IF c.raised # "" THEN "StageRaised"
    ELSE IF \E i \in DOMAIN R : ~NonDefaultAtMostTwice(c, RS(c, R[i])) THEN "FusionOrDeletionAtMostTwice"
    ELSE IF \E i \in DOMAIN R : ~OnlyDefaultExtra(c, RS(c, R[i])) THEN "TwoCompleteHaplotypes"
    ELSE IF \E i \in DOMAIN R : \E k \in DOMAIN R[i].cfgs : IsDel(c, R[i].cfgs[k]) THEN "DeletionListed"
    ELSE IF \E i, j \in DOMAIN R : i # j /\ RS(c, R[i]) = RS(c, R[j]) THEN "NoRepeat"
    ELSE IF T = {} THEN (IF Len(R) = 0 THEN "" ELSE "ReportedButNoneAdmissible")
    ELSE IF Len(R) = 0 THEN "NoneReportedButAdmissibleExists"
    ELSE IF \E i \in DOMAIN R : ~Known(RS(c, R[i])) THEN "NotAnAdmissibleStructure"
    ELSE
      LET best  == MinSet({t[2] : t \in T})
          rbest == MinSet({R[i].score : i \in DOMAIN R})
          big   == best > 150000000
          uncHi == eps * (2 * c.p.gapD + c.p.gapN) + 100 * c.p.gapD
          uncLo == eps * (2 * c.p.gapD + c.p.gapN)
          within == {t \in T : t[2] - best <= best /\ GapDiff(c, t[2], best) <= -uncLo}
          Reported(S) == \E i \in DOMAIN R : RS(c, R[i]) = S
      IN
      IF big THEN "UNDECIDED:ScoreTooLarge"
      ELSE IF \E i \in DOMAIN R : Abs(R[i].score - ScoreOf(RS(c, R[i]))) > eps THEN "ScoreIsObjective"
      ELSE IF rbest > best + eps THEN "Optimal"
      ELSE IF \E i \in DOMAIN R : R[i].score - best > best \/ GapDiff(c, R[i].score, best) > uncHi THEN "AllWithinGap"
      ELSE IF \E t \in within : ~Reported(t[1]) /\
                ~\E i \in DOMAIN R : BagContains(t[1], RS(c, R[i])) /\ R[i].score <= t[2] + eps
           THEN "UnreportedContainsReported"
      ELSE ""

Init == l = 1
Step ==
    /\ l <= N
    /\ LET v == Verdict(TraceLog[l]) IN IF v = "" THEN TRUE ELSE PrintT(<<"V", TraceLog[l].id, v>>)
    /\ l' = l + 1
Finish == l = N + 1 /\ PrintT(<<"V", "DONE", N>>) /\ l' = N + 2
Spec == Init /\ [][Step \/ Finish]_l
=============================================================================
