CONSTANT Bin = {1}
SPECIFICATION TraceSpec
INVARIANT TraceInv
CHECK_DEADLOCK FALSE
