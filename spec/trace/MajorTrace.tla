----------------------------- MODULE MajorTrace -----------------------------
(***************************************************************************)
(* Validation of recorded estimate_major calls against MajorModel (C02).   *)
(* One ndjson row = one call: the case record of MajorModel plus           *)
(*   id, result: Seq([score, alleles: Seq(allele index, ascending),        *)
(*                    novel: Seq(var index)])                               *)
(* The spec recomputes filters, candidates, all admissible multisets and   *)
(* their scores by brute force and names the first clause that fails.      *)
(***************************************************************************)
EXTENDS MajorModel, Json, IOUtils

TraceLog == ndJsonDeserialize(IOEnv.TRACE_FILE)
N == Len(TraceLog)
VARIABLE l

GapLhs(c, s) == s * c.p.gapD
GapRhs(c, best) == (c.p.gapD + c.p.gapN) * best

Verdict(c) ==
    LET d     == Derive(c)
        ine   == d.inexact              \* number of rounded observation terms (0: exact regime)
        eps   == ine + 1                \* + the rounding of the reported float score
        (* must-NOT-report needs a margin of one unit (1e-4 > the solver precision 1e-5);   *)
        (* must-report needs no margin in the exact regime: exact ties have to be reported *)
        uncHi == ine * (2 * c.p.gapD + c.p.gapN) + c.p.gapD
        uncLo == ine * (2 * c.p.gapD + c.p.gapN)
        adm   == TLCEval(AdmissibleCombos(c, d))
        sc    == TLCEval([x \in adm |-> Score(c, d, x)])
        R     == c.result
        RX    == {R[i].alleles : i \in DOMAIN R}
        edge  == d.edge
    IN
    IF ~MergedStruct(c) THEN "BadCase"
    ELSE IF c.raised # "" THEN "StageRaised"
    ELSE IF edge THEN "UNDECIDED:FilterEdge"
    ELSE IF \E i \in DOMAIN R : \E g \in StructCfgs(c) :
            Cardinality({k \in DOMAIN R[i].alleles : c.alleles[R[i].alleles[k]].cfg = g}) # StructCount(c, g)
        THEN "CfgCounts"
    ELSE IF \E i \in DOMAIN R : \E k \in DOMAIN R[i].alleles : R[i].alleles[k] \notin d.cand
        THEN "UnsupportedAlleleCalled"
    ELSE IF \E i \in DOMAIN R : SeqToSet(R[i].novel) # Novel(c, d, R[i].alleles)
        THEN "CarriedXorNovel"
    ELSE IF \E i \in DOMAIN R : ~Admissible(c, d, R[i].alleles) THEN "OneNovelPerSite"
    ELSE IF \E i, j \in DOMAIN R : i # j /\ R[i].alleles = R[j].alleles THEN "NoRepeat"
    ELSE IF \E i \in DOMAIN R : R[i].alleles \notin adm THEN "NotACombination"
    ELSE IF \E i \in DOMAIN R : Abs(R[i].score - sc[R[i].alleles]) > eps THEN "ScoreIsFitError"
    ELSE IF adm = {} THEN (IF Len(R) = 0 THEN "" ELSE "ReportedButNoneAdmissible")
    ELSE IF Len(R) = 0 THEN "NoneReportedButAdmissibleExists"
    ELSE LET best == MinSet({sc[x] : x \in adm})
             rbest == MinSet({sc[x] : x \in RX})
         IN
         IF rbest > best + ine THEN "Optimal"
         ELSE IF \E x \in RX : GapLhs(c, sc[x]) > GapRhs(c, best) + uncHi THEN "AllWithinGap"
         ELSE IF \E x \in adm \ RX : GapLhs(c, sc[x]) <= GapRhs(c, best) - uncLo THEN "CompleteWithinGap"
         ELSE ""

Init == l = 1
Step ==
    /\ l <= N
    /\ LET v == Verdict(TraceLog[l]) IN IF v = "" THEN TRUE ELSE PrintT(<<"V", TraceLog[l].id, v>>)
    /\ l' = l + 1
Finish == l = N + 1 /\ PrintT(<<"V", "DONE", N>>) /\ l' = N + 2
Spec == Init /\ [][Step \/ Finish]_l
=============================================================================
