----------------------------- MODULE MinorTrace -----------------------------
(***************************************************************************)
(* Validation of recorded estimate_minor calls (one major solution per     *)
(* call) against MinorModel (C04).  Row = case record of MinorModel plus   *)
(*   id, raised, enumerate: BOOLEAN, planted: Seq(Seq(var)) or <<>>,        *)
(*   result: Seq([score, copies: Seq([minor, added: Seq(var), missing: Seq(var)])])*)
(* The reported alleles are the model's assignment AFTER the post-processing *)
(* that copies an unambiguously homozygous variant to all copies            *)
(* (HomozygousFill); the score is that of the assignment before it.         *)
(***************************************************************************)
EXTENDS MinorModel, Json, IOUtils

TraceLog == ndJsonDeserialize(IOEnv.TRACE_FILE)
N == Len(TraceLog)
VARIABLE l

FinalCarry(c, r) == (Def(c, r.minor) \cup SeqToSet(r.added)) \ SeqToSet(r.missing)
AsAssign(c, sol) == [k \in DOMAIN sol.copies |-> [minor |-> sol.copies[k].minor, carry |-> FinalCarry(c, sol.copies[k])]]

(* assignments from which HomozygousFill produces A: remove any filled-looking additions *)
RECURSIVE PreFill(_, _, _, _)
PreFill(c, d, A, k) ==
    IF k > Len(A) THEN {<<>>}
    ELSE LET fillable == {v \in Added(c, A[k]) : v \in d.homo}
         IN {<<[minor |-> A[k].minor, carry |-> A[k].carry \ X]>> \o rest :
                X \in SUBSET fillable, rest \in PreFill(c, d, A, k + 1)}
CopyOK(c, d, a) ==
    LET j == c.minors[a.minor].major IN
    a.carry \subseteq Carriable(c, d, j) /\ CoreKept(c, j, a.carry) /\ OnePerSite(c, a.carry)

VariantBag(c, A) == [v \in DOMAIN c.vars |-> Carriers(A, v)]

Verdict(c) ==
    LET d == Derive(c)
        R == c.result
        eps == d.inexact + 1
        nNew == Cardinality(DOMAIN c.minors) * NCopies(c) * Len(c.vars)
        Tie(A) == (NAdded(c, A) * nNew) \div 100 + 1
    IN
    IF c.raised # "" THEN "StageRaised"
    ELSE IF d.edge THEN "UNDECIDED:FilterEdge"
    ELSE IF Len(R) > 1 THEN "MoreSolutionsThanAsked"
    ELSE IF Len(R) = 1 /\ Len(R[1].copies) # NCopies(c) THEN "RefinesMajor"
    ELSE IF Len(R) = 1 /\ \E k \in DOMAIN R[1].copies : R[1].copies[k].minor \notin DOMAIN c.minors THEN "RefinesMajor"
    ELSE IF Len(R) = 1 /\
            \E j \in DOMAIN c.majors :
                Cardinality({k \in DOMAIN R[1].copies : c.minors[R[1].copies[k].minor].major = j})
                    # Cardinality({k \in DOMAIN c.call : c.call[k] = j})
         THEN "RefinesMajor"
    ELSE IF Len(R) = 1 /\ \E k \in DOMAIN R[1].copies :
            LET r == R[1].copies[k] IN
            \/ SeqToSet(r.added) \cap Def(c, r.minor) # {}
            \/ ~(SeqToSet(r.missing) \subseteq Def(c, r.minor))
            \/ 0 \in SeqToSet(r.added) \cup SeqToSet(r.missing)
         THEN "AddedMissingMalformed"
    ELSE
    LET A == IF Len(R) = 1 THEN AsAssign(c, R[1]) ELSE <<>>
        opts == TLCEval([j \in SeqToSet(c.call) |-> SetToSeq(CopyOptions(c, d, j))])
        enum == c.enumerate /\ Enumerable(c, d)
        all == IF enum THEN TLCEval({X \in AssignFrom(c, opts, 1) : Admissible(c, d, X)}) ELSE {}
        best == IF all = {} THEN -1 ELSE MinSet({Score(c, d, X) : X \in all})
    IN
    IF Len(R) = 0 THEN
        (IF enum /\ all # {} THEN "NoneReportedButAdmissibleExists"
         ELSE IF Len(c.planted) > 0 THEN "NoiseFreeReproducesPlanted" ELSE "")
    ELSE IF \E k \in DOMAIN A : ~CoreKept(c, c.minors[A[k].minor].major, A[k].carry) THEN "CoreKept"
    ELSE IF \E k \in DOMAIN A : \E v \in Added(c, A[k]) :
                ~HasCov(c, c.minors[A[k].minor].major, c.vars[v].si) \/ v \notin d.supp
         THEN "AddOnlyWithCopiesAndReads"
    ELSE IF \E k \in DOMAIN A : \E v \in A[k].carry : d.cov[v] = 0 THEN "CarriedHasReads"
    ELSE IF \E k \in DOMAIN A : ~OnePerSite(c, A[k].carry) THEN "OnePerSite"
    ELSE IF \E v \in d.supp : Carriers(A, v) = 0 THEN "SupportedIsCarried"
    ELSE IF SumDom(A, LAMBDA k : Cardinality({v \in Added(c, A[k]) : v \in d.homo})) > 12 THEN "UNDECIDED:FillSpaceTooLarge"
    ELSE IF Len(c.phases) * c.nalleles > c.phaseVars THEN "UNDECIDED:PhasePatternsDownsampled"
    ELSE
    LET pre == {X \in PreFill(c, d, A, 1) : (\A k \in DOMAIN X : CopyOK(c, d, X[k])) /\ Admissible(c, d, X)}
    IN
    IF pre = {} THEN "NotAnAdmissibleAssignment"
    ELSE IF ~\E X \in pre : R[1].score >= Score(c, d, X) - eps /\ R[1].score <= Score(c, d, X) + Tie(X) + eps
        THEN "ScoreIsObjective"
    ELSE IF enum /\ all = {} THEN "ReportedButNoneAdmissible"
    ELSE IF enum /\ R[1].score > best + Tie(A) + eps THEN "Optimal"
    ELSE IF Len(c.planted) > 0 /\
            VariantBag(c, A) # [v \in DOMAIN c.vars |-> Cardinality({k \in DOMAIN c.planted : v \in SeqToSet(c.planted[k])})]
        THEN "NoiseFreeReproducesPlanted"
    ELSE ""

Init == l = 1
Step ==
    /\ l <= N
    /\ LET v == Verdict(TraceLog[l]) IN IF v = "" THEN TRUE ELSE PrintT(<<"V", TraceLog[l].id, v>>)
    /\ l' = l + 1
Finish == l = N + 1 /\ PrintT(<<"V", "DONE", N>>) /\ l' = N + 2
Spec == Init /\ [][Step \/ Finish]_l
=============================================================================
