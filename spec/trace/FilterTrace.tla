----------------------------- MODULE FilterTrace -----------------------------
(***************************************************************************)
(* C15 trace validation.  A FAMILY is a sequence of events about one base  *)
(* evidence table: first a "base" event (the real estimate_major and        *)
(* estimate_minor results on it), then "lowq" events: the results after a   *)
(* random sequence of AddLowQ / RemoveLowQ / ChangeLowQ steps was applied   *)
(* to the evidence.  Each event carries the case records of MajorModel      *)
(* (field major) and MinorModel (field minor, or hasMinor = FALSE).         *)
(*   LowQPremise    the good observations of the event equal the base's    *)
(*   LowQIsStutter  results and scores are identical to the base's          *)
(*   CalledCoreSupported / NovelSupported / CarriedSupported                *)
(*                  every reported variant passes the filters computed by   *)
(*                  Filter.tla from the logged raw evidence                 *)
(***************************************************************************)
EXTENDS Core, Json, IOUtils
MM == INSTANCE MajorModel
MI == INSTANCE MinorModel
FL == INSTANCE Filter

TraceLog == ndJsonDeserialize(IOEnv.TRACE_FILE)
N == Len(TraceLog)
VARIABLES l, base
vars == <<l, base>>

(* canonical (name-based) result descriptions and good-observation table supplied with the event *)
Support(e) ==
    LET c == e.major
        d == MM!Derive(c)
    IN
    IF d.edge THEN "UNDECIDED:FilterEdge"
    ELSE IF \E i \in DOMAIN c.result : \E k \in DOMAIN c.result[i].alleles :
            ~(MM!Core(c, c.result[i].alleles[k]) \subseteq d.obs) THEN "CalledCoreSupported"
    ELSE IF \E i \in DOMAIN c.result : ~(SeqToSet(c.result[i].novel) \subseteq d.obs) THEN "NovelSupported"
    ELSE IF ~e.hasMinor THEN ""
    ELSE LET m == e.minor
             dm == MI!Derive(m)
         IN IF dm.edge THEN "UNDECIDED:FilterEdge"
            ELSE IF \E i \in DOMAIN m.result : \E k \in DOMAIN m.result[i].copies :
                    LET r == m.result[i].copies[k] IN
                    r.minor \in DOMAIN m.minors /\
                    \E v \in (MI!Def(m, r.minor) \cup SeqToSet(r.added)) \ SeqToSet(r.missing) : v = 0 \/ dm.cov[v] = 0
                 THEN "CarriedSupported"
            ELSE ""

Stutter(e) ==
    IF e.good # base.good THEN "BadCase:LowQPremise"
    ELSE IF SeqToSet(e.resmajor) # SeqToSet(base.resmajor) THEN "LowQIsStutter(major)"
    ELSE IF e.resminor # base.resminor THEN "LowQIsStutter(minor)"
    ELSE ""

Verdict(e) ==
    LET s == Support(e) IN
    IF e.raised # "" THEN "StageRaised"
    ELSE IF s # "" THEN s
    ELSE IF e.kind = "lowq" THEN Stutter(e) ELSE ""

Init == l = 1 /\ base = <<>>
Step ==
    /\ l <= N
    /\ LET e == TraceLog[l]
           v == Verdict(e)
       IN /\ IF v = "" THEN TRUE ELSE PrintT(<<"V", e.id, v>>)
          /\ base' = IF e.kind = "base" THEN e ELSE base
    /\ l' = l + 1
Finish == l = N + 1 /\ PrintT(<<"V", "DONE", N>>) /\ l' = N + 2 /\ UNCHANGED base
Spec == Init /\ [][Step \/ Finish]_vars
=============================================================================
