------------------------------ MODULE VcfTrace ------------------------------
(***************************************************************************)
(* Validation of real executions of aldy's VCF route against VcfInput.     *)
(*                                                                         *)
(* The trace file (ndjson, IOEnv.TRACE_FILE) holds                         *)
(*  "gene" events: the catalogue as the real Gene loaded it                *)
(*        cat  = [[site, op, kind], ...]    mnps = [{site, l, r, op}, ...] *)
(*        alleles = [{name, vs}] (binding A only; [] otherwise)            *)
(*  "file" events: one real bgzipped+indexed VCF loaded by the real        *)
(*        Sample(gene, Profile("user_provided", cn_solution=["1","1"]), f) *)
(*        segs  = reference windows (gene[site]) around every record       *)
(*        recs  = the records with the GT of the sample that was selected  *)
(*        crash = "" or the exception the load raised                      *)
(*        sites = [{s, ops: [[op, n], ...]}]  Coverage._coverage at every  *)
(*                site that deviates from 20 reference pseudo-reads and at *)
(*                every site of every record (insertion ops left out: they *)
(*                are observed through coverage[m] only)                   *)
(*        cov   = [{site, op, kind, cov, total}]  coverage[m], total(m) of *)
(*                catalogued variants (all near a record + the planted)    *)
(*        call  = [] or [{planted: {allele, ref, vs}, sols: [{majors, vs}],*)
(*                crash}]  result of genotype() on the same file           *)
(* For every file the spec state FinalState(gene, recs) is computed with   *)
(* the operators of VcfInput and compared with the observation; every      *)
(* disagreement is printed as <<"V", id, clause, tag, site>>.  The module  *)
(* invariants of VcfInput are checked on every replayed file (TraceInv).   *)
(*                                                                         *)
(* Where the implementation is free the spec accepts a set:                *)
(*  - the "_" count at the anchor of an insertion may or may not be        *)
(*    reduced (the anchor base itself is unchanged); what is fixed is      *)
(*    total(m) - coverage[m] = 20 - 10 * copies for the catalogued m;      *)
(*  - sites that the records give more than two alternate copies           *)
(*    (contradicting records) are not compared;                            *)
(*  - a call is accepted when it names {reference, planted} or has the     *)
(*    planted variant multiset.                                            *)
(***************************************************************************)
EXTENDS VcfInput, Json, IOUtils

TraceLog == ndJsonDeserialize(IOEnv.TRACE_FILE)
N == Len(TraceLog)

VARIABLES l,       \* next event
          full     \* the whole catalogue of the current gene (the variable `gene` holds the part near the file)
tvars == <<vars, l, full>>
Ev == TraceLog[l]

GeneOf(ev) ==
    [segs |-> <<>>,
     cat |-> {<<c[1], c[2]>> : c \in Range(ev.cat)},
     mnps |-> {[site |-> m.site, l |-> m.l, r |-> m.r, op |-> m.op] : m \in Range(ev.mnps)},
     alleles |-> [i \in DOMAIN ev.alleles |-> [name |-> ev.alleles[i].name,
                                                vs |-> {<<c[1], c[2]>> : c \in Range(ev.alleles[i].vs)}]]]
(* the gene as far as this file can tell: reference windows of the file; catalogue entries at the   *)
(* sites of its records or named in its projection (the harness projects EVERY catalogued variant *)
(* with non-zero coverage, wherever it is)                                                         *)
Near(ev) == UNION {(ev.recs[i].pos - 3)..(ev.recs[i].pos + Len(ev.recs[i].ref) + 3) : i \in DOMAIN ev.recs}
G(ev) == [full EXCEPT !.segs = ev.segs,
                      !.cat = {k \in full.cat : k[1] \in Near(ev)} \cup {<<ev.cov[i].site, ev.cov[i].op>> : i \in DOMAIN ev.cov},
                      !.mnps = {m \in full.mnps : m.site \in Near(ev)}]

(* ---- helpers over a file (E = Eff(g, f), computed once per file) --------------- *)
InsKeys(E) == {Key(E[i]) : i \in {j \in DOMAIN E : E[j].k = "ins"}}
EffSites(E) == {E[i].site : i \in DOMAIN E}
Ignorable(g, r) == ~Counted(g, r) \/ \E i \in DOMAIN Entries(g, r) : Entries(g, r)[i].k = IGN
IgnCalled(g, r) == \E i \in DOMAIN Entries(g, r) : Entries(g, r)[i].k = IGN     \* a called allele of another shape
Span(r) == (r.pos - 1)..(r.pos + Len(r.ref))
IgnSites(g, f) == UNION {Span(f[i]) : i \in {j \in DOMAIN f : Ignorable(g, f[j])}}
(* RefMismatchReexpressed is asserted where the property states it: a counted record with a one-base *)
(* REF that differs from the RefSeq-derived reference AND a called allele that has to be spelled   *)
(* against it: the REF allele itself (GT index 0), or a one-base substitution ALT.  A mismatching  *)
(* anchor base of an indel / other-shape ALT is NOT required to become a substitution: such        *)
(* records fall under the ordinary clauses of the alleles they call.                               *)
Respelled(g, r) ==
    /\ Counted(g, r) /\ RefMismatch(g, r)
    /\ \E j \in 1..2 : LET y == Called(r)[j] IN y = 0 \/ (y > 0 /\ Len(r.alts[y]) = 1 /\ Range(r.alts[y]) \subseteq DNA)
MismatchSites(g, f) == {f[i].pos : i \in {j \in DOMAIN f : Respelled(g, f[j])}}
MnpSites(g) == UNION {{c[1] : c \in CompKeys(m)} : m \in g.mnps}

ObsN(o, op) ==
    LET M == {i \in DOMAIN o.ops : o.ops[i][1] = op}
    IN  IF M = {} THEN 0 ELSE o.ops[CHOOSE i \in M : TRUE][2]

(* per-file context, computed once *)
Ctx(ev) ==
    LET g == G(ev)
        f == ev.recs
        E == Eff(g, f)
    IN  [g |-> g, f |-> f, E |-> E, st |-> FinalState(g, f), ins |-> InsKeys(E), eff |-> EffSites(E),
         ign |-> IgnSites(g, f), mis |-> MismatchSites(g, f), mnp |-> MnpSites(g)]

(* which clause a disagreement at site s belongs to *)
Why(c, s, dflt) ==
    IF s \in c.mis THEN "RefMismatchReexpressed"
    ELSE IF s \in c.eff THEN dflt
    ELSE IF s \in c.ign THEN "IgnoredAreNoOps"
    ELSE "NoRecordIsHomRef"
Tag(c, s, base) ==
    IF \E k \in c.ins : k[1] = s THEN "ins"
    ELSE IF \E k \in c.ins : CigarInsSite(k[1]) = s THEN "ins+1"
    ELSE IF s \in c.mnp THEN "mnp"
    ELSE base

SiteVerdicts(c, o) ==
    LET s == o.s
        st == c.st
        expRef == NormAt(st, s)
        insReads == SumOver({k \in c.ins : k[1] = s}, LAMBDA k : Get(st.muts, k, 0))
        \* every insertion copy anchored here may or may not have taken reference pseudo-reads away
        \* (a catalogued insertion lives in the indel table, an uncatalogued one in the pileup)
        okRef == {Min2(FULL, expRef + UNIT * j) : j \in 0..(insReads \div UNIT)}
        ops == ({o.ops[i][1] : i \in DOMAIN o.ops} \cup {k[2] : k \in {x \in DOMAIN st.muts : x[1] = s}})
                 \ ({"_"} \cup {k[2] : k \in c.ins})
    IN  IF ~WellFormed(c.E, s) THEN {}
        ELSE (IF ObsN(o, "_") \notin okRef
              THEN {<<Why(c, s, "ReferenceReduced"), Tag(c, s, "ref"), s>>} ELSE {})
             \cup {<<Why(c, s, "SupportProportional"), Tag(c, s, "op"), s>> :
                     op \in {x \in ops : ObsN(o, x) # Get(st.muts, <<s, x>>, 0)}}

CovVerdicts(c, v) ==
    LET k == <<v.site, v.op>>
        exp == Get(c.st.muts, k, 0)
    IN  IF ~WellFormed(c.E, v.site) THEN {}
        ELSE (IF v.cov # exp
              THEN {<<IF v.kind = "sub" THEN Why(c, v.site, "SupportProportional") ELSE "SupportProportional",
                      IF v.kind # "ins" /\ v.site \in c.mnp THEN "mnp" ELSE v.kind, v.site>>}
              ELSE {})
             \cup (IF v.kind = "ins" /\ exp > 0 /\ RawAt(c.E, v.site) = Copies(c.E, k)
                      /\ v.total - v.cov # Max2(0, FULL - exp)
                   THEN {<<"ReferenceReduced", "ins", v.site>>} ELSE {})

(* every site the spec gives evidence to must have been projected *)
Unreported(c, ev) ==
    {k[1] : k \in {x \in DOMAIN c.st.muts : c.st.muts[x] > 0}} \ {ev.sites[i].s : i \in DOMAIN ev.sites}

(* ---- the call ---------------------------------------------------------------- *)
BagEq(a, b) ==
    /\ Len(a) = Len(b)
    /\ \A x \in Range(a) \cup Range(b) :
         Cardinality({i \in DOMAIN a : a[i] = x}) = Cardinality({i \in DOMAIN b : b[i] = x})
(* two alleles (the structure is fixed to two copies), naming the pair or carrying its variant multiset *)
SolOK(p, sol) == Len(sol.majors) = 2 /\ (BagEq(sol.majors, <<p.ref, p.allele>>) \/ BagEq(sol.vs, p.vs))
PlantedHet(c, p) ==
    LET P == {<<x[1], x[2]>> : x \in Range(p.vs)}
    IN  \A k \in KeysOf(c.g, c.E) \cup P : Support(c.g, c.E, k) = IF k \in P THEN 1 ELSE 0
CallVerdicts(c, cl) ==
    IF ~PlantedHet(c, cl.planted) THEN {<<"Machinery:PlantedNotHet", cl.planted.allele, 0>>}
    ELSE IF cl.crash # "" THEN {<<"HetIsRefSlashAllele", "crash:" \o cl.crash, 0>>}
    ELSE IF Len(cl.sols) = 0 THEN {<<"HetIsRefSlashAllele", "nocall", 0>>}
    ELSE IF \E i \in DOMAIN cl.sols : ~SolOK(cl.planted, cl.sols[i]) THEN {<<"HetIsRefSlashAllele", "call", 0>>}
    ELSE {}

VerdictsC(ev, c) ==
    IF ev.crash # ""
    THEN {IF \E i \in DOMAIN c.f : IgnCalled(c.g, c.f[i]) THEN <<"IgnoredAreNoOps", "crash:" \o ev.crash, 0>>
          ELSE IF \E i \in DOMAIN c.E : c.E[i].k = "mnp" THEN <<"SupportProportional", "mnp-crash:" \o ev.crash, 0>>
          ELSE IF \E i \in DOMAIN c.f : Ignorable(c.g, c.f[i]) THEN <<"IgnoredAreNoOps", "crash:" \o ev.crash, 0>>
          ELSE <<"RunCompletes", "crash:" \o ev.crash, 0>>}
    ELSE UNION {SiteVerdicts(c, ev.sites[i]) : i \in DOMAIN ev.sites}
         \cup UNION {CovVerdicts(c, ev.cov[i]) : i \in DOMAIN ev.cov}
         \cup {<<"Machinery:SiteNotReported", "", s>> : s \in Unreported(c, ev)}
         \cup UNION {CallVerdicts(c, ev.call[i]) : i \in DOMAIN ev.call}

(* ---- walking the log -------------------------------------------------------------- *)
TraceInit ==
    /\ l = 1
    /\ gene = [segs |-> <<>>, cat |-> {}, mnps |-> {}, alleles |-> <<>>]
    /\ full = gene
    /\ file = <<>> /\ norm = <<>> /\ muts = <<>> /\ pc = "read"

LoadGene ==
    /\ l <= N /\ Ev.k = "gene"
    /\ gene' = GeneOf(Ev) /\ full' = GeneOf(Ev)
    /\ file' = <<>> /\ norm' = <<>> /\ muts' = <<>> /\ pc' = "read"
    /\ l' = l + 1

ReplayFile ==
    /\ l <= N /\ Ev.k = "file"
    /\ LET c == Ctx(Ev)
       IN  /\ \A v \in VerdictsC(Ev, c) : PrintT(<<"V", Ev.id, v[1], v[2], v[3]>>)
           /\ gene' = c.g /\ file' = Ev.recs
           /\ norm' = c.st.norm /\ muts' = c.st.muts /\ pc' = "done"
    /\ l' = l + 1 /\ UNCHANGED full

Finish2 == l = N + 1 /\ PrintT(<<"V", "DONE", N>>) /\ l' = N + 2 /\ UNCHANGED <<vars, full>>

TraceNext == LoadGene \/ ReplayFile \/ Finish2
TraceSpec == TraceInit /\ [][TraceNext]_tvars

(* the property-level invariants of VcfInput on every replayed file (the state IS FinalState, so   *)
(* OperationalIsFinal is void here; IgnoredAreNoOps / OrderIndependent are decided by MC_VcfInput *)
(* and, for the real files, by the comparison above)                                              *)
TraceInv ==
    /\ SupportProportional /\ ReferenceReduced /\ NoRecordIsHomRef
    /\ RefMismatchReexpressed /\ HetIsRefSlashAllele
=============================================================================
