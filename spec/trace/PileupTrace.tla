---------------------------- MODULE PileupTrace ----------------------------
(***************************************************************************)
(* Trace validation of aldy.sam.Sample against Pileup (C06, bindings A+B). *)
(*                                                                         *)
(* Line 1 of the trace file is the gene context G (see Pileup).  Then, per *)
(* read set: "read" events (the read as written to the BAM + what a direct *)
(* call of Sample._parse_read on this read alone recorded), optional       *)
(* "dtable" events (direct calls accumulated over the whole set in some    *)
(* order) and one "table" event (what the real Sample built from the BAM:  *)
(* projected Coverage table, Coverage.total per position, phase records,   *)
(* the reads that passed the eligibility rules).  Every event is judged by *)
(* Pileup's operators; the first violated clause is printed.               *)
(*                                                                         *)
(* Projection used on both sides (only what the property states):          *)
(* insertion entries are dropped, deleted-base and MNP observations carry  *)
(* base quality 0, outside the RefSeq-mapped part all non-insertion         *)
(* observations of a site are one class ("ref").                           *)
(***************************************************************************)
EXTENDS PileupDefs, Json, IOUtils, SequencesExt, FiniteSetsExt

TraceLog == ndJsonDeserialize(IOEnv.TRACE_FILE)
N == Len(TraceLog)
H == TraceLog[1]
TraceG == H      \* NB: TLC re-evaluates a cfg-substituted constant at every reference: keep it a plain lookup

VARIABLES l, cur, bags     \* cur: reads of the current set; bags: their declarative per-read bags
tvars == <<l, cur, bags>>

Ev == TraceLog[l]
TupSet(t) == {t[i] : i \in DOMAIN t}

(* ---- projection ---------------------------------------------------------- *)
P(o) == IF ~Mapped(o[1]) THEN <<o[1], "ref", 0, 0, o[5], 0>> ELSE o
ProjRows(t, lo, hi) ==
    LET ks == {o \in DOMAIN t : o[2] # "ins" /\ lo <= o[1] /\ o[1] <= hi}
        km == {o \in ks : Mapped(o[1])}
        ku == ks \ km
        pu == {P(o) : o \in ku}
    IN {<<o[1], o[2], o[3], o[4], o[5], o[6], t[o]>> : o \in km}
       \cup {<<q[1], q[2], q[3], q[4], q[5], q[6], SumKeys(t, {o \in ku : o[1] = q[1] /\ o[5] = q[5]})>> : q \in pu}
RowsSet(rows) == TupSet(rows)
DepthOf(rowset) == LET ps == {x[1] : x \in rowset} IN
    [s \in ps |-> FoldSet(LAMBDA x, acc : acc + x[7], 0, {x \in rowset : x[1] = s})]
KindOf(rowset) == {<<x[1], x[2], x[3], x[4], FoldSet(LAMBDA y, acc : acc + y[7], 0,
                        {y \in rowset : y[1] = x[1] /\ y[2] = x[2] /\ y[3] = x[3] /\ y[4] = x[4]})>> : x \in rowset}
Diff(want, got) == IF want = got THEN ""
                   ELSE IF DepthOf(want) # DepthOf(got) THEN "DepthConservation"
                   ELSE IF KindOf(want) # KindOf(got) THEN "SubCounts"
                   ELSE "QualityKept"
Inf == 1000000

(* ---- phases -------------------------------------------------------------- *)
PhaseOK(ph, showsAt(_), plo, phi) ==      \* ph: tuple of <<site, kind, a, b>>, restricted to sites plo..phi
    LET dom == {ph[i][1] : i \in DOMAIN ph} IN
    /\ \A s \in PhaseableIn(plo, phi) : (s \in dom) <=> showsAt(s) # {}
    /\ \A i \in DOMAIN ph : Phaseable(ph[i][1]) /\ <<ph[i][2], ph[i][3], ph[i][4]>> \in showsAt(ph[i][1])

(* ---- CIGAR normal form (adjacent match runs merged) ----------------------- *)
RECURSIVE NormC(_)
NormC(c) == IF Len(c) <= 1 THEN (IF Len(c) = 1 /\ c[1][1] \in MT THEN <<<<0, c[1][2]>>>> ELSE c)
            ELSE LET rest == NormC(Tail(c))
                     h == IF c[1][1] \in MT THEN <<0, c[1][2]>> ELSE c[1]
                 IN IF h[1] = 0 /\ rest[1][1] = 0 THEN <<<<0, h[2] + rest[1][2]>>>> \o Tail(rest)
                    ELSE <<h>> \o rest

(* ---- verdicts -------------------------------------------------------------- *)
WF(r) == Len(r.cigar) > 0 /\ WellFormed(r) /\ Len(r.seq) > 0
ReadVerdict(ev, decl) ==
    LET r == ev.r
        wf == WF(r)
    IN IF ~wf THEN (IF ev.hasdirect THEN "Harness/DirectOnMalformed" ELSE "")
       ELSE LET run == RunRead(r)
                bag == BagOfSeq(run.obs)
            IN IF bag # decl THEN "Spec/OperationalEqualsDeclarative"
               ELSE IF ~ev.hasdirect THEN ""
               ELSE LET d == Diff(ProjRows(bag, 0 - Inf, Inf), RowsSet(ev.direct)) IN
                    IF d # "" THEN "Walk/" \o d
                    ELSE IF ~PhaseOK(ev.dphase, LAMBDA s : Shows(r, s), r.start - 1, r.start + RefLen(r.cigar) + 1) THEN "Walk/PhaseRecordSound"
                    ELSE IF ~(/\ Len(ev.mnpq) = Len(run.mnpq)
                              /\ \A i \in DOMAIN run.mnpq :
                                   LET e == run.mnpq[i]  g == ev.mnpq[i] IN
                                   g[1] = e[1] /\ g[2] = e[5] * e[2] /\ e[5] * e[3] <= g[3] /\ g[3] <= e[5] * e[4])
                         THEN "Walk/QualityKept(MNP)"
                    ELSE IF ev.splitof # 0 /\
                            ~(/\ NormC(r.cigar) = NormC(ev.orig.cigar) /\ r.seq = ev.orig.seq /\ r.start = ev.orig.start
                              /\ RowsSet(ev.direct) = RowsSet(ev.origdirect)
                              /\ bag = RunReadBag(ev.orig))
                         THEN "SplitInvariant"
                    ELSE ""

WFIdx(rs) == {i \in DOMAIN rs : Len(rs[i].cigar) > 0 /\ WellFormed(rs[i]) /\ Len(rs[i].seq) > 0}
DTableVerdict(ev, rs) ==
    LET t == SumBags([i \in WFIdx(rs) |-> RunReadBag(rs[i])], WFIdx(rs))
        d == Diff(ProjRows(t, 0 - Inf, Inf), RowsSet(ev.rows))
    IN IF d = "" THEN "" ELSE "OrderIndependent/" \o d

TableVerdict(ev, rs, bs) ==
    LET E == Elig(rs)
        key(x) == <<rs[x].name, rs[x].start, Len(rs[x].seq)>>
        eligrows == {<<q[1], q[2], q[3], Cardinality({x \in E : key(x) = q})>> : q \in {key(x) : x \in E}}
    IN IF eligrows # RowsSet(ev.elig) THEN "Eligible"
       ELSE LET tot == [i \in DOMAIN ev.tot |-> ev.tot[i]]
                totOK == \A i \in DOMAIN tot :
                            tot[i][2] = Cardinality({x \in E : Spans(rs[x], tot[i][1])})
            IN IF ~totOK THEN "DepthConservation(total)"
               ELSE LET t == SumBags(bs, E)
                        d == Diff(ProjRows(t, ev.lo, ev.hi), RowsSet(ev.rows))
                    IN IF d # "" THEN d
                       ELSE IF \E i \in DOMAIN ev.phases :
                                 ~PhaseOK(ev.phases[i][2], LAMBDA s : FragShows(rs, ev.phases[i][1], s), ev.plo, ev.phi)
                            THEN "PhaseRecordSound"
                       ELSE IF \E f \in {rs[x].name : x \in E} :
                                 /\ ~\E i \in DOMAIN ev.phases : ev.phases[i][1] = f
                                 /\ \E s \in PhaseableIn(ev.plo, ev.phi) : FragShows(rs, f, s) # {}
                            THEN "PhaseRecordSound(missing)"
                       ELSE ""

Verdict(ev, rs, bs, decl) ==
    CASE ev.k = "read"   -> ReadVerdict(ev, decl)
      [] ev.k = "dtable" -> DTableVerdict(ev, rs)
      [] ev.k = "table"  -> TableVerdict(ev, rs, bs)
      [] OTHER -> "UnknownEvent"

TraceInit == l = 2 /\ cur = <<>> /\ bags = <<>>
Step ==
    /\ l <= N
    /\ LET decl == IF Ev.k = "read" /\ WF(Ev.r) THEN DeclReadBag(Ev.r) ELSE EmptyBag
           v == Verdict(Ev, cur, bags, decl)
       IN /\ IF v = "" THEN TRUE ELSE PrintT(<<"V", Ev.id, v, l>>)
          /\ IF Ev.k = "read" /\ ~Ev.dupcheck
               THEN /\ cur' = (IF Ev.fresh THEN <<Ev.r>> ELSE Append(cur, Ev.r))
                    /\ bags' = (IF Ev.fresh THEN <<decl>> ELSE Append(bags, decl))
               ELSE UNCHANGED <<cur, bags>>
    /\ l' = l + 1
Finish == l = N + 1 /\ PrintT(<<"V", "DONE", N>>) /\ l' = N + 2 /\ UNCHANGED <<cur, bags>>
TraceNext == Step \/ Finish
TraceSpec == TraceInit /\ [][TraceNext]_tvars
=============================================================================
