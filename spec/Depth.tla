------------------------------- MODULE Depth -------------------------------
(***************************************************************************)
(* C07: the copy-number signal is depth-normalised.                        *)
(*                                                                         *)
(* Read sets are sequences of read records as in PileupDefs plus a field   *)
(* `mult` (number of identical copies of the read in the file).  G has the *)
(* extra fields                                                            *)
(*   regions  Seq([g, name, lo, hi]) gene (g=0) / pseudogene (g>=1)        *)
(*            regions, half-open [lo, hi)                                  *)
(* The copy-number-neutral region cn = <<lo, hi>> (half-open in the sums,  *)
(* inclusive ends in the read filter, as _in_region) is an argument.       *)
(*                                                                         *)
(*   S[reg]  = Sum_{site in reg} #{eligible reads spanning site}           *)
(*             (= Coverage.total by C06: insertions excluded)              *)
(*   Ref     = Sum_{site in [cn.lo, cn.hi)} #{neutral reads spanning site} *)
(*             neutral read: has a CIGAR, mapped, not supplementary,       *)
(*             touches the neutral region                                  *)
(*   P[reg], NV = the same sums over ALL reads with a CIGAR of the profile *)
(*             sample (Profile.get_sam_profile_data)                       *)
(*   Norm[reg] = (NV / Ref) * S[reg] / (P[reg] / 2), 0 when P[reg] = 0;    *)
(*             Ref = 0 is an error (the sample is rejected).               *)
(* Norm is kept as the exact rational <<2*NV*S, Ref*P>>.                   *)
(***************************************************************************)
EXTENDS PileupDefs

(* ---- read-set sums -------------------------------------------------------- *)
Mult(r) == r.mult
HasCigar(r) == Len(r.cigar) > 0
SumOver(S, f(_)) == FoldSet(LAMBDA x, acc : f(x) + acc, 0, S)

(* definition by sites *)
DepthAt(rs, who, s) == SumOver({i \in who : Spans(rs[i], s)}, LAMBDA i : Mult(rs[i]))
SiteSum(rs, who, lo, hi) == SumOver(lo..(hi - 1), LAMBDA s : DepthAt(rs, who, s))
(* closed form: a read spans the contiguous interval [start, start + RefLen) *)
Max2(a, b) == IF a > b THEN a ELSE b
Min2(a, b) == IF a < b THEN a ELSE b
Overlap(r, lo, hi) == Max2(0, Min2(r.start + RefLen(r.cigar), hi) - Max2(r.start, lo))
OverlapSum(rs, who, lo, hi) == SumOver(who, LAMBDA i : Mult(rs[i]) * Overlap(rs[i], lo, hi))

TouchesCN(r, cn) == LET a0 == r.start  a1 == PysamEnd(r) IN (a0 <= cn[1] /\ cn[1] <= a1) \/ (cn[1] <= a0 /\ a0 <= cn[2])
NeutralIdx(rs, cn) == {i \in DOMAIN rs : HasCigar(rs[i]) /\ ~rs[i].unmapped /\ ~rs[i].supp /\ rs[i].oncontig /\ TouchesCN(rs[i], cn)}
AllIdx(rs) == {i \in DOMAIN rs : HasCigar(rs[i]) /\ rs[i].oncontig}

S(rs, reg)    == OverlapSum(rs, Elig(rs), reg.lo, reg.hi)
RefSum(rs, cn) == OverlapSum(rs, NeutralIdx(rs, cn), cn[1], cn[2])
P(ps, reg)    == OverlapSum(ps, AllIdx(ps), reg.lo, reg.hi)
NV(ps, cn)    == OverlapSum(ps, AllIdx(ps), cn[1], cn[2])

(* Norm as a rational <<num, den>>; <<0, 1>> when the profile has no depth in the region *)
Norm(rs, ps, reg, cn) == IF P(ps, reg) = 0 THEN <<0, 1>> ELSE <<2 * NV(ps, cn) * S(rs, reg), RefSum(rs, cn) * P(ps, reg)>>
Rejected(rs, cn) == RefSum(rs, cn) = 0
RatEq(a, b) == a[1] * b[2] = b[1] * a[2]
RatTimes(kk, a) == <<kk * a[1], a[2]>>

(* ---- transformations of a read set ---------------------------------------- *)
Dup(kk, rs) == [i \in DOMAIN rs |-> [rs[i] EXCEPT !.mult = @ * kk]]
(* gene reads: reads that contribute to no site of the neutral region *)
IsGeneRead(r, cn) == Overlap(r, cn[1], cn[2]) = 0
GeneDup(kk, rs, cn) == [i \in DOMAIN rs |-> IF IsGeneRead(rs[i], cn) THEN [rs[i] EXCEPT !.mult = @ * kk] ELSE rs[i]]
(* no read feeds both a gene region and the neutral region *)
Separated(rs, cn) == \A i \in DOMAIN rs : \A j \in DOMAIN G.regions :
                        Overlap(rs[i], G.regions[j].lo, G.regions[j].hi) = 0 \/ IsGeneRead(rs[i], cn)
(* every read is counted on the sample side exactly when it is counted on the profile side *)
Clean(rs, cn) == \A i \in AllIdx(rs) :
    /\ (\E j \in DOMAIN G.regions : Overlap(rs[i], G.regions[j].lo, G.regions[j].hi) > 0) => Eligible(rs[i])
    /\ Overlap(rs[i], cn[1], cn[2]) > 0 => i \in NeutralIdx(rs, cn)

(* ---- the properties, as facts about Norm ---------------------------------- *)
Regs == {G.regions[j] : j \in DOMAIN G.regions}
OverlapFormEqualsSiteSum(rs, cn) ==
    /\ \A reg \in Regs : S(rs, reg) = SiteSum(rs, Elig(rs), reg.lo, reg.hi)
    /\ RefSum(rs, cn) = SiteSum(rs, NeutralIdx(rs, cn), cn[1], cn[2])
ScaleInvariant(rs, ps, cn, kk) ==
    /\ Rejected(Dup(kk, rs), cn) = Rejected(rs, cn)
    /\ ~Rejected(rs, cn) => \A reg \in Regs : RatEq(Norm(Dup(kk, rs), ps, reg, cn), Norm(rs, ps, reg, cn))
GeneLinear(rs, ps, cn, kk) ==
    (Separated(rs, cn) /\ ~Rejected(rs, cn)) =>
        \A reg \in Regs : RatEq(Norm(GeneDup(kk, rs, cn), ps, reg, cn), RatTimes(kk, Norm(rs, ps, reg, cn)))
SelfProfileIsTwo(rs, cn) ==
    (Clean(rs, cn) /\ ~Rejected(rs, cn)) => \A reg \in Regs : P(rs, reg) # 0 => RatEq(Norm(rs, rs, reg, cn), <<2, 1>>)
(* in general the self-normalised value is 2 x (eligible / all) x (all neutral / counted neutral) *)
SelfProfileGeneral(rs, cn) ==
    ~Rejected(rs, cn) => \A reg \in Regs : P(rs, reg) # 0 =>
        RatEq(Norm(rs, rs, reg, cn), <<2 * S(rs, reg) * NV(rs, cn), P(rs, reg) * RefSum(rs, cn)>>)
(* the structure model consumes only the vector of Norm values: it is the same for R and Dup(k, R) *)
NormVector(rs, ps, cn) == [j \in DOMAIN G.regions |-> Norm(rs, ps, G.regions[j], cn)]
StructureDepthFree(rs, ps, cn, kk) ==
    ~Rejected(rs, cn) => \A j \in DOMAIN G.regions : RatEq(NormVector(Dup(kk, rs), ps, cn)[j], NormVector(rs, ps, cn)[j])

(* ---- the pipeline as a state machine (one action per call) ---------------- *)
VARIABLES sam,      \* the sample's read set
          prof,     \* the profile sample's read set
          cnr,      \* neutral region
          dpc,      \* "start" | "profiled" | "done"
          pdata,    \* profile: [p : region index -> Nat, nv : Nat]
          out       \* [err : BOOLEAN, v : region index -> <<num, den>>]
dvars == <<sam, prof, cnr, dpc, pdata, out>>
DStart == dpc = "start" /\ pdata = [p |-> <<>>, nv |-> 0] /\ out = [err |-> FALSE, v |-> <<>>]
(* Profile.load / `aldy profile`: per-region and neutral sums over all reads with a CIGAR *)
LoadProfile == /\ dpc = "start" /\ dpc' = "profiled"
               /\ pdata' = [p |-> [j \in DOMAIN G.regions |-> P(prof, G.regions[j])], nv |-> NV(prof, cnr)]
               /\ UNCHANGED <<sam, prof, cnr, out>>
(* Sample.__init__ -> Coverage._normalize_coverage *)
Normalise ==  /\ dpc = "profiled" /\ dpc' = "done"
              /\ out' = IF RefSum(sam, cnr) = 0 THEN [err |-> TRUE, v |-> <<>>]
                        ELSE [err |-> FALSE, v |-> [j \in DOMAIN G.regions |->
                                 IF pdata.p[j] = 0 THEN <<0, 1>>
                                 ELSE <<2 * pdata.nv * S(sam, G.regions[j]), RefSum(sam, cnr) * pdata.p[j]>>]]
              /\ UNCHANGED <<sam, prof, cnr, pdata>>
DNext == LoadProfile \/ Normalise
OutMatchesNorm == (dpc = "done") =>
    IF Rejected(sam, cnr) THEN out.err
    ELSE ~out.err /\ \A j \in DOMAIN G.regions : out.v[j] = Norm(sam, prof, G.regions[j], cnr)
=============================================================================
