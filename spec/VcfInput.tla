------------------------------ MODULE VcfInput ------------------------------
(***************************************************************************)
(* C16 - VCF genotypes are turned into matching evidence for every variant *)
(* kind (aldy/sam.py:_load_vcf, _make_coverage; aldy/coverage.py).         *)
(*                                                                         *)
(* A VCF is a sequence of records  [pos, ref, alts, gt]  of ONE sample:    *)
(*   pos   0-based site of the first REF base (POS - 1, origin subtracted) *)
(*   ref   REF as a sequence of one-letter strings                         *)
(*   alts  the ALT alleles, each a sequence of one-letter strings          *)
(*   gt    the sample's GT as allele indices, -1 for "."                   *)
(* The evidence is  norm[site]  (reference pseudo-reads; FULL = 20 where   *)
(* nothing was recorded) and  muts[<<site, op>>]  (UNIT = 10 pseudo-reads  *)
(* per alternate allele copy).  `op` is spelled as the catalogue spells it *)
(* ("A>G", "delAC", "insT", "GG>CC", "C.C>G.T").                            *)
(*                                                                         *)
(* Operational layer: Record / MergeMNP / Close (one action per critical   *)
(* section of the loop).  Semantic layer: Copies / Support (counting).     *)
(* The invariants relate the two; spec/trace/VcfTrace.tla relates the      *)
(* operational layer to what the real Coverage object shows.               *)
(*                                                                         *)
(* Anchor translation (insertions).  A standard left-anchored VCF record   *)
(*   POS = a+1, REF = base(a), ALT = base(a) X                             *)
(* names the base the inserted sequence FOLLOWS: VcfAnchor = a.  The gene  *)
(* database stores (site, insX) with the same meaning (YAML "p insX" is    *)
(* HGVS "between p and p+1"; loaded site = 0-based p-1 on +, the genome-   *)
(* left neighbour on -): DbInsSite(a) = a.  A CIGAR walk reports the NEXT  *)
(* reference base a+1 (CigarInsSite) - that is NOT the catalogue's key.    *)
(***************************************************************************)
EXTENDS Integers, Sequences, FiniteSets, TLC, SequencesExt, FiniteSetsExt, Functions

UNIT == 10                  \* pseudo-reads of one allele copy
FULL == 2 * UNIT            \* a site of a two-copy sample
IGN  == "?"                 \* kind of an allele that yields no evidence ("any other shape")
DNA  == {"A", "C", "G", "T"}

VARIABLES
    gene,       \* [segs, cat, mnps, alleles]  (see below)
    file,       \* records consumed so far
    norm,       \* [touched sites -> reference pseudo-reads]
    muts,       \* [<<site, op>> -> pseudo-reads]
    pc          \* "read" | "merge" | "done"
vars == <<gene, file, norm, muts, pc>>

(***************************************************************************)
(* gene.segs    Seq([lo, b]) : genome-oriented RefSeq-derived reference    *)
(*              (what gene[site] returns), "N" outside the mapped part     *)
(* gene.cat     set of <<site, op>> : catalogued variants as loaded        *)
(* gene.mnps    set of [site, l, r, op] : catalogued multi-nucleotide      *)
(*              substitutions, l/r one-letter sequences, "." = untouched   *)
(* gene.alleles Seq([name, vs]) : alleles of the default structure, the  *)
(*              first one is the reference (no variants)                   *)
(***************************************************************************)
Max2(a, b) == IF a > b THEN a ELSE b
Min2(a, b) == IF a < b THEN a ELSE b
Get(f, k, d) == IF k \in DOMAIN f THEN f[k] ELSE d
Put(f, k, v) == [x \in DOMAIN f \cup {k} |-> IF x = k THEN v ELSE f[x]]
Str(s) == FoldLeft(LAMBDA a, b : a \o b, "", s)          \* <<"A","C">> -> "AC"
SumOver(S, F(_)) == FoldSet(LAMBDA x, acc : acc + F(x), 0, S)

InSeg(sg, s) == s >= sg.lo /\ s < sg.lo + Len(sg.b)
Base(g, s) ==
    IF \E i \in DOMAIN g.segs : InSeg(g.segs[i], s)
    THEN LET i == CHOOSE j \in DOMAIN g.segs : InSeg(g.segs[j], s)
         IN  g.segs[i].b[s - g.segs[i].lo + 1]
    ELSE "N"
Bases(g, a, b) == [i \in 1..(b - a + 1) |-> Base(g, a + i - 1)]     \* sites a..b

(* ---- one record ---------------------------------------------------------- *)
Called(r) == SelectSeq(r.gt, LAMBDA y : y >= 0)           \* "." dropped (the code sorts; order is irrelevant)
(* exactly two called alleles, first REF base inside the mapped reference *)
Counted(g, r) == Len(Called(r)) = 2 /\ Base(g, r.pos) # "N"

Off(ref, alt) ==                                          \* length of the common prefix
    LET n == Min2(Len(ref), Len(alt)) IN
    IF \A i \in 1..n : ref[i] = alt[i] THEN n
    ELSE CHOOSE k \in 0..(n - 1) : ref[k + 1] # alt[k + 1] /\ \A i \in 1..k : ref[i] = alt[i]

VcfAnchor(pos, off) == pos + off - 1      \* last base shared by REF and ALT
DbInsSite(a)        == a                  \* catalogue key of "inserted after base a"
CigarInsSite(a)     == a + 1              \* (the convention of a CIGAR walk; not used by the catalogue)

Ent(s, o, k) == [site |-> s, op |-> o, k |-> k]
Key(e) == <<e.site, e.op>>

(* a same-length allele that spells a catalogued multi-nucleotide substitution *)
DiffIdx(g, pos, alt) == {i \in DOMAIN alt : alt[i] # Base(g, pos + i - 1)}
MnpOf(g, pos, alt) ==
    LET D == DiffIdx(g, pos, alt) IN
    IF Cardinality(D) < 2 THEN {}
    ELSE LET lo == Min(D)
             hi == Max(D)
             L  == [i \in 1..(hi - lo + 1) |-> IF (lo + i - 1) \in D THEN Base(g, pos + lo + i - 2) ELSE "."]
             R  == [i \in 1..(hi - lo + 1) |-> IF (lo + i - 1) \in D THEN alt[lo + i - 1] ELSE "."]
         IN  {m \in g.mnps : m.site = pos + lo - 1 /\ m.l = L /\ m.r = R}

(* REF/ALT -> catalogue spelling, against the RefSeq-derived reference *)
ToOp(g, pos, ref, alt) ==
    LET off == Off(ref, alt) IN
    IF ~(Range(alt) \subseteq DNA) THEN Ent(pos, IGN, IGN)                  \* "*", "<NON_REF>", ...
    ELSE IF Len(ref) - off = 1 /\ Len(alt) - off = 1 THEN                  \* substitution
        IF alt[off + 1] = Base(g, pos + off) THEN Ent(pos + off, "_", "_")
        ELSE Ent(pos + off, Base(g, pos + off) \o ">" \o alt[off + 1], "sub")
    ELSE IF Len(ref) > Len(alt) /\ Len(alt) = off THEN                     \* deletion: "del" + reference bases
        Ent(pos + off, "del" \o Str(Bases(g, pos + off, pos + Len(ref) - 1)), "del")
    ELSE IF Len(ref) < Len(alt) /\ Len(ref) = off THEN                     \* insertion after the anchor
        Ent(DbInsSite(VcfAnchor(pos, off)), "ins" \o Str(SubSeq(alt, off + 1, Len(alt))), "ins")
    ELSE IF Len(ref) = Len(alt) /\ MnpOf(g, pos, alt) # {} THEN           \* catalogued MNP in one record
        LET m == CHOOSE x \in MnpOf(g, pos, alt) : TRUE IN Ent(m.site, m.op, "mnp")
    ELSE Ent(pos, IGN, IGN)                                                  \* any other shape

RefMismatch(g, r) == Len(r.ref) = 1 /\ r.ref[1] # Base(g, r.pos)
RefEntry(g, r) ==
    IF RefMismatch(g, r) THEN Ent(r.pos, Base(g, r.pos) \o ">" \o r.ref[1], "sub")   \* re-expression
    ELSE Ent(r.pos, "_", "_")
Alleles(g, r) == <<RefEntry(g, r)>> \o [i \in DOMAIN r.alts |-> ToOp(g, r.pos, r.ref, r.alts[i])]
(* what the two called alleles of a record express (<<>> for an ignored record) *)
Entries(g, r) ==
    IF Counted(g, r) THEN [i \in 1..2 |-> Alleles(g, r)[Called(r)[i] + 1]] ELSE <<>>
Effective(e) == e.k \notin {"_", IGN}
HasEffect(g, r) == \E i \in DOMAIN Entries(g, r) : Effective(Entries(g, r)[i])

(* ---- evidence state ------------------------------------------------------ *)
Empty == [norm |-> <<>>, muts |-> <<>>]
NormAt(st, s) == Get(st.norm, s, FULL)
AddEntry(st, e) ==
    IF ~Effective(e) THEN st
    ELSE [norm |-> Put(st.norm, e.site, Max2(0, NormAt(st, e.site) - UNIT)),
          muts |-> Put(st.muts, Key(e), Get(st.muts, Key(e), 0) + UNIT)]
ApplyRecord(g, st, r) ==
    LET es == Entries(g, r) IN
    IF es = <<>> THEN st ELSE AddEntry(AddEntry(st, es[1]), es[2])

(* ---- multi-nucleotide substitutions -------------------------------------- *)
CompKeys(m) == {<<m.site + p - 1, m.l[p] \o ">" \o m.r[p]>> : p \in {q \in DOMAIN m.l : m.l[q] # "."}}
MnpKey(m) == <<m.site, m.op>>
CanMerge(st, m) == \A c \in CompKeys(m) : Get(st.muts, c, 0) >= UNIT
MergeOne(st, m) ==
    LET K == CompKeys(m)
        later == {c[1] : c \in K} \ {m.site}
    IN [muts |-> [k \in DOMAIN st.muts \cup {MnpKey(m)} |->
                    IF k \in K THEN st.muts[k] - UNIT
                    ELSE IF k = MnpKey(m) THEN Get(st.muts, k, 0) + UNIT ELSE st.muts[k]],
        \* the multi-substitution is recorded at its first site only
        norm |-> [s \in DOMAIN st.norm |-> IF s \in later THEN st.norm[s] + UNIT ELSE st.norm[s]]]
RECURSIVE MergeAll(_, _)
MergeAll(g, st) ==
    IF \E m \in g.mnps : CanMerge(st, m)
    THEN MergeAll(g, MergeOne(st, CHOOSE m \in g.mnps : CanMerge(st, m)))
    ELSE st
ReadAll(g, f) == FoldLeft(LAMBDA st, r : ApplyRecord(g, st, r), Empty, f)
FinalState(g, f) == MergeAll(g, ReadAll(g, f))
(* canonical form: untouched entries dropped *)
Canon(st) == [norm |-> Restrict(st.norm, {s \in DOMAIN st.norm : st.norm[s] # FULL}),
              muts |-> Restrict(st.muts, {k \in DOMAIN st.muts : st.muts[k] # 0})]

(* ---- actions ---------------------------------------------------------------- *)
Record(r) ==
    /\ pc = "read"
    /\ file' = Append(file, r)
    /\ LET st == ApplyRecord(gene, [norm |-> norm, muts |-> muts], r)
       IN  norm' = st.norm /\ muts' = st.muts
    /\ UNCHANGED <<gene, pc>>
MergeMNP(m) ==
    /\ pc \in {"read", "merge"} /\ m \in gene.mnps
    /\ CanMerge([norm |-> norm, muts |-> muts], m)
    /\ LET st == MergeOne([norm |-> norm, muts |-> muts], m)
       IN  norm' = st.norm /\ muts' = st.muts
    /\ pc' = pc /\ UNCHANGED <<gene, file>>
Close ==
    /\ pc = "read" /\ pc' = "merge" /\ UNCHANGED <<gene, file, norm, muts>>
Finish ==
    /\ pc = "merge" /\ ~\E m \in gene.mnps : CanMerge([norm |-> norm, muts |-> muts], m)
    /\ pc' = "done" /\ UNCHANGED <<gene, file, norm, muts>>

(* ---- semantic layer (counting; no state) ----------------------------------- *)
(* Eff(g, f): the effective allele entries of a file, flattened (a bag as a sequence).  Every    *)
(* operator below takes this sequence E so that it is computed once per file.                    *)
Eff(g, f) == FoldLeft(LAMBDA acc, r : acc \o SelectSeq(Entries(g, r), Effective), <<>>, f)
Copies(E, k) == Cardinality({i \in DOMAIN E : Key(E[i]) = k})
RawAt(E, site) == Cardinality({i \in DOMAIN E : E[i].site = site})
MinComp(E, m) == Min({Copies(E, c) : c \in CompKeys(m)})
(* alternate copies credited to variant k once components are folded into their multi-substitution *)
Support(g, E, k) ==
    IF \E m \in g.mnps : k = MnpKey(m)
    THEN LET m == CHOOSE x \in g.mnps : k = MnpKey(x) IN Copies(E, k) + MinComp(E, m)
    ELSE IF \E m \in g.mnps : k \in CompKeys(m)
    THEN LET m == CHOOSE x \in g.mnps : k \in CompKeys(x) IN Copies(E, k) - MinComp(E, m)
    ELSE Copies(E, k)
KeysOf(g, E) == {Key(E[i]) : i \in DOMAIN E} \cup g.cat \cup {MnpKey(m) : m \in g.mnps}
SitesOf(g, E) == {k[1] : k \in KeysOf(g, E)}
(* a site is well formed when the records give it at most two alternate copies *)
WellFormed(E, site) == RawAt(E, site) <= 2
DisjointMnps(g) == \A m1, m2 \in g.mnps : m1 # m2 => CompKeys(m1) \cap CompKeys(m2) = {}

State == [norm |-> norm, muts |-> muts]
Done == pc = "done"

(* ---- the property ------------------------------------------------------------ *)
(* none / one copy's worth / two copies' worth *)
SupportProportional == Done =>
    LET E == Eff(gene, file) IN
    \A k \in KeysOf(gene, E) \cup DOMAIN muts : Get(muts, k, 0) = UNIT * Support(gene, E, k)
ReferenceReduced == Done =>
    LET E == Eff(gene, file)
        Ks == KeysOf(gene, E)
    IN  \A s \in {k[1] : k \in Ks} \cup DOMAIN norm : WellFormed(E, s) =>
            NormAt(State, s) = FULL - UNIT * SumOver({k \in Ks : k[1] = s}, LAMBDA k : Support(gene, E, k))
NoRecordIsHomRef == Done =>
    LET E == Eff(gene, file) IN
    \A s \in SitesOf(gene, E) \cup DOMAIN norm \cup {k[1] : k \in DOMAIN muts} :
        RawAt(E, s) = 0 =>
            NormAt(State, s) = FULL /\ \A k \in DOMAIN muts : k[1] = s => muts[k] = 0
IgnoredAreNoOps == Done =>
    Canon(State) = Canon(FinalState(gene, SelectSeq(file, LAMBDA r : HasEffect(gene, r))))
IgnoredStepNoOp ==
    [][(Len(file') = Len(file) + 1 /\ ~HasEffect(gene, file'[Len(file')])) => UNCHANGED <<norm, muts>>]_vars
(* Stated for what the property names: the REF allele of a record whose one-base REF differs from  *)
(* the RefSeq-derived reference (when it is called), and one-base substitution ALTs of such a      *)
(* record (never spelled against the file's REF).  Nothing is demanded of the anchor base of an     *)
(* indel ALT.                                                                                       *)
RefMismatchReexpressed == Done =>
    LET E == Eff(gene, file) IN
    \A i \in DOMAIN file : LET r == file[i] IN (Counted(gene, r) /\ RefMismatch(gene, r)) =>
        LET b == Base(gene, r.pos)
            n0 == Cardinality({j \in 1..2 : Called(r)[j] = 0})
            k0 == <<r.pos, b \o ">" \o r.ref[1]>>
        IN  \* the REF allele is credited as a substitution of the RefSeq base (unless that substitution
            \* is folded into a catalogued multi-substitution) ...
            /\ (~\E m \in gene.mnps : k0 \in CompKeys(m)) =>
                  (Support(gene, E, k0) >= n0 /\ Get(muts, k0, 0) >= UNIT * n0)
            \* ... and nothing is spelled against the record's own REF
            /\ \A x \in DNA : Get(muts, <<r.pos, r.ref[1] \o ">" \o x>>, 0) = 0
OrderIndependent == Done => Canon(FinalState(gene, file)) = Canon(FinalState(gene, Reverse(file)))
OperationalIsFinal == Done => Canon(State) = Canon(FinalState(gene, file))
Conserved ==    \* pseudo-reads are moved, never created: 20 per well-formed site
    LET E == Eff(gene, file) IN
    \A s \in DOMAIN norm : WellFormed(E, s) =>
        norm[s] + SumOver({k \in DOMAIN muts : k[1] = s}, LAMBDA k : muts[k]) = FULL

(* ---- end-to-end consequence --------------------------------------------------- *)
(* With 20 pseudo-reads for two gene copies one copy is worth UNIT. *)
CopiesSeen(st, k) == Get(st.muts, k, 0) \div UNIT
Has(a, k) == IF k \in a.vs THEN 1 ELSE 0
Explains(g, st, a, b) == \A k \in g.cat : CopiesSeen(st, k) = Has(a, k) + Has(b, k)
CarriesHet(g, f, a) == a.vs # {} /\ LET E == Eff(g, f) IN \A k \in KeysOf(g, E) : Support(g, E, k) = Has(a, k)
BagOfPair(g, a, b) == [k \in g.cat |-> Has(a, k) + Has(b, k)]
RefAllele(g) == g.alleles[1]
(* a call is acceptable for a planted pair when it names the pair or has the pair's variant multiset *)
HetIsRefSlashAllele == Done =>
    \A i \in DOMAIN gene.alleles : LET a == gene.alleles[i] IN CarriesHet(gene, file, a) =>
        /\ Explains(gene, State, RefAllele(gene), a)
        /\ \A j, l \in DOMAIN gene.alleles :
             Explains(gene, State, gene.alleles[j], gene.alleles[l]) =>
                BagOfPair(gene, gene.alleles[j], gene.alleles[l]) = BagOfPair(gene, RefAllele(gene), a)
=============================================================================
