-------------------------------- MODULE Core --------------------------------
(***************************************************************************)
(* Shared vocabulary of the aldy specifications: integer helpers, bags as  *)
(* sorted sequences, fixed-point arithmetic (TLC has 32-bit integers and   *)
(* no reals), three-valued comparisons.                                     *)
(***************************************************************************)
EXTENDS Integers, FiniteSets, Sequences, FiniteSetsExt, SequencesExt, Functions, TLC

U == 10000                      \* fixed-point unit: 1.0 = U

Abs(x) == IF x < 0 THEN -x ELSE x
Max2(a, b) == IF a >= b THEN a ELSE b
Min2(a, b) == IF a <= b THEN a ELSE b
SumOver(S, F(_)) == FoldSet(LAMBDA x, acc : acc + F(x), 0, S)
SumSeq(s) == FoldFunction(LAMBDA x, acc : acc + x, 0, s)
SumDom(s, F(_)) == FoldSet(LAMBDA i, acc : acc + F(i), 0, DOMAIN s)
MinSet(S) == CHOOSE m \in S : \A x \in S : m <= x
MaxSet(S) == CHOOSE m \in S : \A x \in S : m >= x
SeqToSet(s) == {s[i] : i \in DOMAIN s}
CountIn(s, x) == Cardinality({i \in DOMAIN s : s[i] = x})

(* Bags of size k over a set S of integers, as non-decreasing sequences. *)
RECURSIVE SortedSeqs(_, _, _)
SortedSeqs(S, k, lo) ==
    IF k = 0 THEN {<<>>}
    ELSE UNION {{<<x>> \o t : t \in SortedSeqs(S, k - 1, x)} : x \in {y \in S : y >= lo}}
BagsOf(S, k) == SortedSeqs(S, k, IF S = {} THEN 0 ELSE MinSet(S))

(* round(num * U / den) and whether the division is exact *)
FixDiv(num, den) == (2 * num * U + den) \div (2 * den)
FixExact(num, den) == (num * U) % den = 0

(* a <= b under an uncertainty of eps units on the difference: "yes" | "no" | "undecided" *)
Leq3(a, b, eps) == IF a <= b - eps THEN "yes" ELSE IF a > b + eps THEN "no" ELSE "undecided"
=============================================================================
