------------------------------ MODULE CNModel ------------------------------
(***************************************************************************)
(* Gene-structure (copy number) calling (cn.py).  SEMANTIC LAYER.          *)
(*                                                                         *)
(* Case record c:                                                          *)
(*   p     [diff10, fit10, pars, parsL, parsR, cnMax100, gapN, gapD]       *)
(*         diff10 = 10*cn_diff, fit10 = 10*cn_fit,                         *)
(*         pars  = cn_parsimony*7.5*U  (penalty of one active copy x nU)   *)
(*         parsL/parsR = extra penalty of a left/right fusion copy (x nU)   *)
(*         cnMax100 = 100*cn_max (bound of the gene-fit error terms)       *)
(*   M     maximal copy number handed to the model                         *)
(*   regs  Seq([c0, c1, w10]) unique regions: normalised depth of gene and *)
(*         pseudogene in 1/100 copies, w10 = 10 * weight of the region     *)
(*   cfgs  Seq([name, kind, g: Seq(Nat), ps: Seq(Nat), fsA, fsB])           *)
(*         configurations: gene / pseudogene copies per unique region;      *)
(*         kind in "default"|"left"|"right"|"deletion"|"custom";           *)
(*         fsA/fsB = long-read support of a fusion (fsB = -1: not listed)   *)
(*   fs    BOOLEAN long-read fusion support values were supplied            *)
(*   pseudo BOOLEAN the gene has a pseudogene                               *)
(* All scores are objective * nU * 100 in U-units (integers).              *)
(***************************************************************************)
EXTENDS Core

NR(c) == Len(c.regs)
Cfgs(c) == DOMAIN c.cfgs
(* weak-fusion filter: with long-read support values, a fusion needs support >= 1/(2M) *)
OkCfg(c, g) ==
    \/ ~c.fs
    \/ c.cfgs[g].kind \in {"default", "deletion"}
    \/ (c.cfgs[g].fsB > 0 /\ 2 * c.M * c.cfgs[g].fsA >= c.cfgs[g].fsB)
Cand(c) == {g \in Cfgs(c) : OkCfg(c, g)}
DelCfgs(c) == {g \in Cand(c) : c.cfgs[g].kind = "deletion"}
DefCfgs(c) == {g \in Cand(c) : c.cfgs[g].kind = "default"}
HasPseudoSlots(c) == c.pseudo /\ DelCfgs(c) # {}

(* An explanation: two complete haplotype configurations (a sorted pair), extra        *)
(* pseudogene-free copies of the default configuration, free pseudogene copies.          *)
Explanations(c) ==
    {[s |-> s, x |-> x, q |-> q] :
        s \in BagsOf(Cand(c), 2),
        x \in IF DefCfgs(c) = {} THEN {0} ELSE 0..(c.M - 1),
        q \in IF HasPseudoSlots(c) THEN 0..c.M ELSE {0}}
IsDel(c, g) == c.cfgs[g].kind = "deletion"
(* a double deletion excludes everything else (pseudogene copies included) *)
WellFormed(c, e) == (IsDel(c, e.s[1]) /\ IsDel(c, e.s[2])) => (e.x = 0 /\ e.q = 0)

(* case-level constants, evaluated once *)
Consts(c) ==
    [ def |-> IF DefCfgs(c) = {} THEN 0 ELSE CHOOSE g \in DefCfgs(c) : TRUE,
      del |-> IF DelCfgs(c) = {} THEN 0 ELSE CHOOSE g \in DelCfgs(c) : TRUE ]

(* gene / pseudogene copies of explanation e in region r.  An extra copy is the default *)
(* configuration with one pseudogene copy removed; a free pseudogene copy has the        *)
(* deletion configuration's vector.                                                       *)
GeneCn(c, k, e, r) ==
    c.cfgs[e.s[1]].g[r] + c.cfgs[e.s[2]].g[r]
    + (IF e.x > 0 THEN e.x * c.cfgs[k.def].g[r] ELSE 0)
    + (IF e.q > 0 THEN e.q * c.cfgs[k.del].g[r] ELSE 0)
PseudoCn(c, k, e, r) ==
    IF ~c.pseudo THEN 0 ELSE
    c.cfgs[e.s[1]].ps[r] + c.cfgs[e.s[2]].ps[r]
    + (IF e.x > 0 THEN e.x * (c.cfgs[k.def].ps[r] - 1) ELSE 0)
    + (IF e.q > 0 THEN e.q * c.cfgs[k.del].ps[r] ELSE 0)

Scale(c, r) == Max2(c.regs[r].c0, c.regs[r].c1) + 100
CopyPen(c, g) ==
    c.p.pars + (IF c.cfgs[g].kind = "left" THEN c.p.parsL ELSE 0)
             + (IF c.cfgs[g].kind = "right" THEN c.p.parsR ELSE 0)

(* error terms (1/100 copies), feasibility and objective (times nU x 100, in U-units) of e *)
Eval(c, k, e) ==
    LET R  == 1..NR(c)
        ge == TLCEval([r \in R |-> c.regs[r].c0 - 100 * GeneCn(c, k, e, r)])
        dn == TLCEval([r \in R |-> c.regs[r].c0 - c.regs[r].c1
                                   - 100 * (GeneCn(c, k, e, r) - PseudoCn(c, k, e, r))])
    IN
    [ feas |-> \A r \in R : /\ Abs(ge[r]) <= c.p.cnMax100
                            /\ Abs(dn[r]) <= (c.p.cnMax100 \div 100) * Scale(c, r),
      obj  |->   c.p.diff10 * SumOver(R, LAMBDA r : c.regs[r].w10 * FixDiv(Abs(dn[r]), Scale(c, r)))
               + c.p.fit10 * 10 * SumOver(R, LAMBDA r : Abs(ge[r]) * (U \div 100))
               + 100 * ( CopyPen(c, e.s[1]) + CopyPen(c, e.s[2])
                       + (IF e.x > 0 THEN e.x * CopyPen(c, k.def) ELSE 0)
                       + e.q * c.p.pars ) ]
(* rounding error bound of the objective: half a unit per region term, times its coefficient *)
ObjEps(c) == SumOver(1..NR(c), LAMBDA r : (c.p.diff10 * c.regs[r].w10) \div 2 + 1)

(* the structure an explanation denotes: configuration -> number of copies (deletion implicit) *)
StructOf(c, k, e) ==
    [g \in Cfgs(c) |->
        IF IsDel(c, g) THEN 0
        ELSE (IF e.s[1] = g THEN 1 ELSE 0) + (IF e.s[2] = g THEN 1 ELSE 0)
             + (IF e.x > 0 /\ g = k.def THEN e.x ELSE 0)]
(* all feasible well-formed explanations as <<structure, objective>> *)
Table(c) ==
    LET k == Consts(c) IN
    UNION {LET v == Eval(c, k, e) IN IF v.feas THEN {<<StructOf(c, k, e), v.obj>>} ELSE {}
           : e \in {x \in Explanations(c) : WellFormed(c, x)}}
BagContains(S, T) == \A g \in DOMAIN S : S[g] >= T[g]      \* bag containment
Total(S) == SumOver(DOMAIN S, LAMBDA g : S[g])

(* well-formedness of a reported structure, stated directly as in the property *)
NonDefaultAtMostTwice(c, S) == \A g \in Cfgs(c) : c.cfgs[g].kind # "default" => S[g] <= 2
OnlyDefaultExtra(c, S) ==      \* copies beyond the two haplotypes are default copies
    SumOver(Cfgs(c), LAMBDA g : IF c.cfgs[g].kind = "default" THEN 0 ELSE S[g]) <= 2
=============================================================================
