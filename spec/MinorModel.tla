----------------------------- MODULE MinorModel -----------------------------
(***************************************************************************)
(* Minor star-allele refinement (minor.py).  SEMANTIC LAYER.               *)
(*                                                                         *)
(* Case record c:                                                          *)
(*   p       [thrN, thrD, minCov10, cnMax, missPen, addPen] (penalties in  *)
(*           fixed-point units)                                            *)
(*   sites   Seq of Filter site records + keepall: BOOLEAN (site lies in   *)
(*           an exon / UTR / upstream region: non-catalogued changes there *)
(*           are considered by the stage's evidence filter)                *)
(*   vars    Seq([si, ins, core]) the CONSIDERED variants: core and silent *)
(*           variants of every minor allele of every called major allele,  *)
(*           novel variants of the major call, the catalogue's "random"    *)
(*           variants.  core = function altering.                          *)
(*   cfgs, struct  as in MajorModel                                        *)
(*   majors  Seq([name, cfg, core: Seq(var)]) the called major alleles      *)
(*   minors  Seq([name, major, silent: Seq(var)]) their catalogued minors  *)
(*   call    Seq(major index), one entry per called copy, ascending         *)
(*   phases  Seq([cnt, at: Seq([si, var])]) read-phase evidence: cnt       *)
(*           fragments that show, at each listed site (>= 2 sites with a    *)
(*           considered variant), the considered variant `var' (0: the      *)
(*           reference or some other change)                                *)
(* An ASSIGNMENT gives every copy k a minor allele of its major allele and  *)
(* the set of considered variants the copy is said to carry:                *)
(*   Seq([minor, carry \subseteq DOMAIN vars]).                             *)
(***************************************************************************)
EXTENDS Filter

SiteCn(c, i) == SumDom(c.struct, LAMBDA k : c.struct[k].n * c.cfgs[c.struct[k].cfg].cn[i])
NCopies(c) == Len(c.call)

(* the stage's evidence filter: a non-reference op that is not a considered variant is    *)
(* only eligible in exons/UTRs/upstream                                                    *)
Elig(s, o) == o.op \in {"_", "-"} \/ o.var # 0 \/ s.keepall       \* "-": deleted bases count towards the depth
PrepSite(s) == [s EXCEPT !.ops = [k \in DOMAIN s.ops |-> [s.ops[k] EXCEPT !.elig = Elig(s, s.ops[k])]]]

NoOp == [op |-> "", good |-> 0, low |-> 0, ins |-> FALSE, var |-> 0, tab |-> <<>>, elig |-> TRUE]
FindOp(s, P(_)) ==
    LET K == {k \in DOMAIN s.ops : P(s.ops[k])} IN IF K = {} THEN NoOp ELSE s.ops[CHOOSE k \in K : TRUE]

Def(c, m) == SeqToSet(c.majors[c.minors[m].major].core) \cup SeqToSet(c.minors[m].silent)
MajCore(c, j) == SeqToSet(c.majors[j].core)
HasCov(c, j, i) == c.cfgs[c.majors[j].cfg].cn[i] > 0            \* major j has gene copies at site i
MinorsOf(c, j) == {m \in DOMAIN c.minors : c.minors[m].major = j}

(* everything that depends on the evidence only, evaluated once per case *)
Derive(c) ==
    LET S  == TLCEval([i \in DOMAIN c.sites |-> PrepSite(c.sites[i])])
        cn == TLCEval([i \in DOMAIN c.sites |-> SiteCn(c, i)])
        vop == TLCEval([v \in DOMAIN c.vars |-> FindOp(S[c.vars[v].si], LAMBDA o : o.var = v)])
        rop == TLCEval([i \in DOMAIN c.sites |-> FindOp(S[i], LAMBDA o : o.op = "_")])
        cov == TLCEval([v \in DOMAIN c.vars |-> FCov(c.p, S[c.vars[v].si], vop[v], cn[c.vars[v].si])])
    IN
    [ cn   |-> cn,
      cov  |-> cov,                                                          \* filtered read support
      rcov |-> TLCEval([i \in DOMAIN c.sites |-> FCov(c.p, S[i], rop[i], cn[i])]),
      vobs |-> TLCEval([v \in DOMAIN c.vars |-> Obs(c.p, S[c.vars[v].si], vop[v], cn[c.vars[v].si])]),
      robs |-> TLCEval([i \in DOMAIN c.sites |-> Obs(c.p, S[i], rop[i], cn[i])]),
      (* observed copies = number of called copies, exactly (homozygous fill) *)
      homo |-> TLCEval({v \in DOMAIN c.vars :
                  LET i == c.vars[v].si IN
                  cn[i] > 0 /\ ObsNum(c.p, S[i], vop[v], cn[i]) = NCopies(c) * ObsDen(c.p, S[i], vop[v], cn[i])}),
      supp |-> TLCEval({v \in DOMAIN c.vars : cov[v] > 0 /\ cn[c.vars[v].si] > 0}),
      inexact |-> Cardinality({v \in DOMAIN c.vars : ~ObsExact(c.p, S[c.vars[v].si], vop[v], cn[c.vars[v].si])})
                + Cardinality({i \in DOMAIN c.sites : ~ObsExact(c.p, S[i], rop[i], cn[i])}),
      edge |-> \E i \in DOMAIN c.sites : HasEdge(c.p, S[i], cn[i]) ]

(* ---- rules on one copy ---------------------------------------------------------------- *)
(* R3/R5a: a copy carries only supported variants at sites where its allele has gene copies *)
Carriable(c, d, j) == {v \in d.supp : HasCov(c, j, c.vars[v].si)}
(* R4: at most one carried variant per site (insertions included) *)
OnePerSite(c, C) == \A v, w \in C : v # w => c.vars[v].si # c.vars[w].si
(* R2: core variants of the major allele are never dropped *)
CoreKept(c, j, C) == MajCore(c, j) \subseteq C
CopyOptions(c, d, j) ==
    IF ~(MajCore(c, j) \subseteq Carriable(c, d, j)) THEN {}
    ELSE {[minor |-> m, carry |-> C] :
            m \in MinorsOf(c, j),
            C \in {MajCore(c, j) \cup X : X \in {Y \in SUBSET (Carriable(c, d, j) \ MajCore(c, j)) :
                                                   OnePerSite(c, MajCore(c, j) \cup Y)}}}
(* size of the assignment space (upper bound), to decide whether it can be enumerated *)
RECURSIVE Pow2(_)
Pow2(n) == IF n <= 0 THEN 1 ELSE IF n > 20 THEN 2000000 ELSE 2 * Pow2(n - 1)
OptionBound(c, d, j) == Cardinality(MinorsOf(c, j)) * Pow2(Cardinality(Carriable(c, d, j) \ MajCore(c, j)))
RECURSIVE SpaceBound(_, _, _)
SpaceBound(c, d, k) ==
    IF k > NCopies(c) THEN 1
    ELSE LET b == OptionBound(c, d, c.call[k])
             r == SpaceBound(c, d, k + 1)
         IN IF b > 30000 \/ r > 30000 \/ b * r > 30000 THEN 30001 ELSE b * r
Enumerable(c, d) == SpaceBound(c, d, 1) <= 30000

(* ---- assignments: one option per copy; copies of one major allele are interchangeable -- *)
RECURSIVE AssignFrom(_, _, _)
AssignFrom(c, opts, k) ==      \* opts[j] = sequence of the options of major j
    IF k > NCopies(c) THEN {<<>>}
    ELSE LET j == c.call[k]
             n == Cardinality({q \in DOMAIN c.call : c.call[q] = j})
         IN {[q \in 1..n |-> opts[j][b[q]]] \o rest :
                b \in BagsOf(DOMAIN opts[j], n), rest \in AssignFrom(c, opts, k + n)}

Carriers(A, v) == Cardinality({k \in DOMAIN A : v \in A[k].carry})
(* R5: a supported variant is carried by at least one copy and by no more copies than reads *)
CarrierBounds(c, d, A) ==
    \A v \in DOMAIN c.vars :
        IF v \in d.supp THEN Carriers(A, v) >= 1 /\ Carriers(A, v) <= d.cov[v]
        ELSE Carriers(A, v) = 0
(* does copy k show the reference at site i, as the model counts it: the copy has gene       *)
(* copies there and EITHER its definition has a non-insertion variant at i which it dropped  *)
(* OR its definition has none and it carries no added non-insertion variant there            *)
DefAt(c, m, i) == {v \in Def(c, m) : c.vars[v].si = i /\ ~c.vars[v].ins}
ShowsRef(c, A, k, i) ==
    LET m == A[k].minor
        j == c.minors[m].major
    IN /\ HasCov(c, j, i)
       /\ IF DefAt(c, m, i) # {} THEN DefAt(c, m, i) \cap A[k].carry = {}
          ELSE ~\E v \in A[k].carry : c.vars[v].si = i /\ ~c.vars[v].ins
RefCarriers(c, A, i) == Cardinality({k \in DOMAIN A : ShowsRef(c, A, k, i)})
(* R6: bound on "variant slots left empty" at a site *)
SlotsAt(c, d, m, i) ==      \* variants a copy with minor m could express at site i
    IF ~HasCov(c, c.minors[m].major, i) THEN {}      \* the allele lost that region
    ELSE {v \in DOMAIN c.vars : c.vars[v].si = i}
EmptySlots(c, d, A, i) ==
    SumDom(A, LAMBDA k : Cardinality(SlotsAt(c, d, A[k].minor, i)) - Cardinality({v \in A[k].carry : c.vars[v].si = i}))
MaxSlots(c, d, i) ==
    MaxSet({0} \cup {Cardinality(SlotsAt(c, d, m, i)) : m \in {mm \in DOMAIN c.minors : c.minors[mm].major \in SeqToSet(c.call)}})
RefBound(c, d, A) ==
    \A i \in DOMAIN c.sites :
        (MaxSlots(c, d, i) > 0) =>
            IF d.cn[i] = 0 THEN EmptySlots(c, d, A, i) <= 0
            ELSE EmptySlots(c, d, A, i) <= MaxSet({d.cn[i], d.rcov[i], MaxSlots(c, d, i)})
Admissible(c, d, A) == CarrierBounds(c, d, A) /\ RefBound(c, d, A)

(* ---- objective ------------------------------------------------------------------------- *)
Added(c, a) == a.carry \ Def(c, a.minor)
Missing(c, a) == Def(c, a.minor) \ a.carry
FitError(c, d, A) ==
      SumOver(DOMAIN c.vars, LAMBDA v : Abs(d.vobs[v] - U * Carriers(A, v)))
    + SumOver(DOMAIN c.sites, LAMBDA i : Abs(d.robs[i] - U * RefCarriers(c, A, i)))
NovelCoreAdded(c, A) == {v \in DOMAIN c.vars : c.vars[v].core /\ \E k \in DOMAIN A : v \in Added(c, A[k])}
Penalty(c, A) ==
      c.p.missPen * SumDom(A, LAMBDA k : Cardinality(Missing(c, A[k])))
    + c.p.addPen * SumDom(A, LAMBDA k : Cardinality(Added(c, A[k])))
    + (c.p.addPen \div 2) * Cardinality(NovelCoreAdded(c, A))
(* read-phase disagreement (rule 7): every fragment pattern is attributed to ONE called copy     *)
(* that has at least two considered variants among the pattern's sites (with gene copies there);   *)
(* it disagrees once per variant the pattern shows but the copy does not carry, and once per       *)
(* variant the copy carries at a pattern site although the pattern shows something else            *)
PatSites(p) == {p.at[i].si : i \in DOMAIN p.at}
Shown(p, i) == LET K == {x \in DOMAIN p.at : p.at[x].si = i} IN p.at[CHOOSE x \in K : TRUE].var
Relevant(c, p, j) == {v \in DOMAIN c.vars : c.vars[v].si \in PatSites(p) /\ HasCov(c, j, c.vars[v].si)}
EligibleCopies(c, A, p) == {k \in DOMAIN A : Cardinality(Relevant(c, p, c.minors[A[k].minor].major)) >= 2}
Mismatch(c, p, a) ==
    LET R == Relevant(c, p, c.minors[a.minor].major) IN
    Cardinality({v \in R : Shown(p, c.vars[v].si) = v /\ v \notin a.carry})
    + Cardinality({v \in R : Shown(p, c.vars[v].si) # v /\ v \in a.carry})
PhaseCost(c, A) ==
    SumDom(c.phases, LAMBDA q :
        LET p == c.phases[q]
            E == EligibleCopies(c, A, p)
        IN IF E = {} THEN 0 ELSE p.cnt * MinSet({Mismatch(c, p, A[k]) : k \in E}))
Score(c, d, A) == FitError(c, d, A) + Penalty(c, A) + (c.p.phasePen * PhaseCost(c, A))
NAdded(c, A) == SumDom(A, LAMBDA k : Cardinality(Added(c, A[k])))
=============================================================================
