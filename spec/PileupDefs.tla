----------------------------- MODULE PileupDefs -------------------------------
(***************************************************************************)
(* C06: alignment evidence is a faithful pileup of the eligible reads.     *)
(*                                                                         *)
(* Two definitions of the evidence table that TLC relates:                 *)
(*  - operational: the CIGAR walk of aldy.sam.Sample._parse_read, one       *)
(*    action per CIGAR operation (StartRead / StepOp / EndRead with the     *)
(*    multi-nucleotide merge), preceded by the eligibility rules of        *)
(*    Sample._load_sam;                                                    *)
(*  - declarative: closed-form spans (prefix sums over the CIGAR): which   *)
(*    read shows what at which site.                                       *)
(*                                                                         *)
(* Vocabulary.  Positions are integers relative to a per-gene origin.      *)
(* Bases: 0 A, 1 C, 2 G, 3 T, 4 N.  CIGAR ops use the BAM numbering        *)
(* (0 M, 1 I, 2 D, 4 S, 5 H, 7 =, 8 X).  An observation is                 *)
(*   <<pos, kind, a, b, mq, bq>>, kind in "ref" | "sub" (a ref base, b     *)
(*   shown base) | "del" | "mnp" (a = index in G.mnps) | "ins" (a length,  *)
(*   b code of the inserted bases, recorded at the NEXT reference base).   *)
(* mq = Bin(mapping quality); bq = Bin(base quality) for "ref"/"sub" and   *)
(* 0 (= not specified by the property) for "del", "mnp", "ins".            *)
(*                                                                         *)
(* G (the gene context) is a record:                                       *)
(*   len      positions 1..len carry a reference base                      *)
(*   ref      Seq(base) of length len                                      *)
(*   mapped   Seq(<<lo, hi>>) inclusive ranges of the RefSeq-mapped part   *)
(*   wide     <<b0, b1>> the wide gene region (b1 exclusive end, but the   *)
(*            eligibility test uses inclusive ends, as _in_region)         *)
(*   mnps     Seq([pos, offs, ref, alt]) catalogued multi-nucleotide subs  *)
(*            (offs[1] = 0; only the non-'.' positions are listed)         *)
(*   phase    Seq(0..1) of length len: 1 at catalogued variant sites       *)
(***************************************************************************)
EXTENDS Integers, FiniteSets, Sequences, TLC, Bags, FiniteSetsExt

CONSTANT G


MT     == {0, 7, 8}
RefOps == {0, 2, 7, 8}
QOps   == {0, 1, 4, 7, 8}

Bin(q) == IF q < 2 THEN q ELSE IF q < 10 THEN 6 ELSE IF q < 20 THEN 15
          ELSE IF q < 29 THEN 25 ELSE IF q < 39 THEN 35 ELSE 40

RefAt(s)  == IF s >= 1 /\ s <= G.len THEN G.ref[s] ELSE 4
Phaseable(s) == s >= 1 /\ s <= G.len /\ G.phase[s] = 1
PhaseableIn(lo, hi) == {s \in (IF lo < 1 THEN 1 ELSE lo)..(IF hi > G.len THEN G.len ELSE hi) : G.phase[s] = 1}
Mapped(s) == \E i \in DOMAIN G.mapped : G.mapped[i][1] <= s /\ s <= G.mapped[i][2]

RECURSIVE RefPrefix(_, _), QPrefix(_, _), Code(_, _, _)
RefPrefix(c, j) == IF j = 0 THEN 0 ELSE RefPrefix(c, j - 1) + (IF c[j][1] \in RefOps THEN c[j][2] ELSE 0)
QPrefix(c, j)   == IF j = 0 THEN 0 ELSE QPrefix(c, j - 1) + (IF c[j][1] \in QOps THEN c[j][2] ELSE 0)
RefLen(c) == RefPrefix(c, Len(c))
QLen(c)   == QPrefix(c, Len(c))
Code(sq, from, n) == IF n = 0 THEN 0 ELSE (Code(sq, from, n - 1) * 5 + sq[from + n - 1] + 1) % 1000003

SeqRange(s) == {s[i] : i \in DOMAIN s}
BagOfSeq(s) == LET rg == SeqRange(s) IN
               IF Cardinality(rg) = Len(s) THEN [e \in rg |-> 1]
               ELSE [e \in rg |-> Cardinality({i \in DOMAIN s : s[i] = e})]

(* ------------------------------------------------------------------ eligibility *)
HasH(c)     == \E j \in DOMAIN c : c[j][1] = 5
PysamEnd(r) == r.start + (IF RefLen(r.cigar) = 0 THEN 1 ELSE RefLen(r.cigar))
InRegion(r) == LET a0 == r.start  a1 == PysamEnd(r)  b0 == G.wide[1]  b1 == G.wide[2]
               IN  (a0 <= b0 /\ b0 <= a1) \/ (b0 <= a0 /\ a0 <= b1)
Eligible(r) == /\ Len(r.cigar) > 0 /\ ~r.unmapped /\ ~r.supp /\ ~HasH(r.cigar)
               /\ Len(r.seq) > 0 /\ r.oncontig /\ InRegion(r)
(* secondary and duplicate flags are deliberately absent *)
Spans(r, s) == r.start <= s /\ s < r.start + RefLen(r.cigar)

(* ------------------------------------------------------------------ operational walk *)
W0(r) == [rp |-> r.start, qp |-> 0, obs |-> <<>>, phase |-> <<>>, mnpq |-> <<>>]

SetPhase(ph, upd) == [s \in (DOMAIN ph) \cup (DOMAIN upd) |-> IF s \in DOMAIN upd THEN upd[s] ELSE ph[s]]

OpEffect(r, st, op, n) ==
    LET mq == Bin(r.mapq) IN
    IF op = 2 THEN
        [st EXCEPT !.rp = @ + n,
                   !.obs = @ \o [i \in 1..n |-> <<st.rp + i - 1, "del", 0, 0, mq, 0>>],
                   !.phase = IF Phaseable(st.rp) THEN SetPhase(@, st.rp :> <<"del", n, 0>>) ELSE @]
    ELSE IF op = 1 THEN
        [st EXCEPT !.qp = @ + n,
                   !.obs = Append(@, <<st.rp, "ins", n, Code(r.seq, st.qp + 1, n), mq, 0>>),
                   \* the phase record stores an insertion at the base it FOLLOWS (the database anchor)
                   !.phase = IF Phaseable(st.rp - 1)
                             THEN SetPhase(@, (st.rp - 1) :> <<"ins", n, Code(r.seq, st.qp + 1, n)>>) ELSE @]
    ELSE IF op = 4 THEN [st EXCEPT !.qp = @ + n]
    ELSE IF op \in MT THEN
        LET one(i) == LET s == st.rp + i - 1
                          b == r.seq[st.qp + i]
                          bq == Bin(r.qual[st.qp + i])
                      IN IF Mapped(s) /\ RefAt(s) # b THEN <<s, "sub", RefAt(s), b, mq, bq>>
                         ELSE <<s, "ref", 0, 0, mq, bq>>
            news == {s \in st.rp..(st.rp + n - 1) : Phaseable(s)}
        IN [st EXCEPT !.rp = @ + n, !.qp = @ + n,
                      !.obs = @ \o [i \in 1..n |-> one(i)],
                      !.phase = SetPhase(@, [s \in news |-> LET o == one(s - st.rp + 1) IN <<o[2], o[3], o[4]>>])]
    ELSE st      \* H (and anything else) is ignored by the walk; H makes the read ineligible

(* multi-nucleotide merge at the end of a read, one catalogued MNP after the other *)
SubObsOf(st, m, j) == {i \in DOMAIN st.obs :
        /\ st.obs[i][1] = m.pos + m.offs[j] /\ st.obs[i][2] = "sub"
        /\ st.obs[i][3] = m.ref[j] /\ st.obs[i][4] = m.alt[j]}
SeenAll(st, m) == \A j \in DOMAIN m.offs : SubObsOf(st, m, j) # {}
MergeOne(st, mi) ==
    LET m == G.mnps[mi] IN
    IF ~SeenAll(st, m) THEN st
    ELSE LET item(j) == st.obs[CHOOSE i \in SubObsOf(st, m, j) : TRUE]
             gone == UNION {SubObsOf(st, m, j) : j \in DOMAIN m.offs}
             kept == [i \in 1..Len(st.obs) |-> i]
             rest == SelectSeq(kept, LAMBDA i : i \notin gone)
             bqs == {item(j)[6] : j \in DOMAIN m.offs}
             lo == CHOOSE x \in bqs : \A y \in bqs : x <= y
             hi == CHOOSE x \in bqs : \A y \in bqs : x >= y
         IN [st EXCEPT
               !.obs = [i \in 1..Len(rest) |-> st.obs[rest[i]]]
                       \o <<<<m.pos, "mnp", mi, 0, item(1)[5], 0>>>>
                       \o [j \in 1..(Len(m.offs) - 1) |->
                             <<m.pos + m.offs[j + 1], "ref", 0, 0, item(j + 1)[5], item(j + 1)[6]>>],
               !.mnpq = Append(@, <<mi, item(1)[5], lo, hi, Len(m.offs)>>),
               \* the phase record shows the merged substitution: the variant at its first position,
               \* the reference at the later ones (as the table counts them)
               !.phase = LET later == {m.pos + m.offs[j] : j \in 2..Len(m.offs)} IN
                         [s \in DOMAIN @ |-> IF s = m.pos THEN <<"mnp", mi, 0>>
                                             ELSE IF s \in later THEN <<"ref", 0, 0>> ELSE @[s]]]
RECURSIVE MergeFrom(_, _)
MergeFrom(st, mi) == IF mi > Len(G.mnps) THEN st ELSE MergeFrom(MergeOne(st, mi), mi + 1)
Merge(st) == MergeFrom(st, 1)

RECURSIVE WalkFrom(_, _, _)
WalkFrom(r, st, j) == IF j > Len(r.cigar) THEN st
                      ELSE WalkFrom(r, OpEffect(r, st, r.cigar[j][1], r.cigar[j][2]), j + 1)
RunRead(r)    == Merge(WalkFrom(r, W0(r), 1))     \* the whole of _parse_read as a function
RunReadBag(r) == BagOfSeq(RunRead(r).obs)

(* ------------------------------------------------------------------ declarative *)
CoverK(r, s) == {j \in DOMAIN r.cigar : /\ r.cigar[j][1] \in RefOps
                                        /\ r.start + RefPrefix(r.cigar, j - 1) <= s
                                        /\ s < r.start + RefPrefix(r.cigar, j)}
MCover(r, s) == {j \in CoverK(r, s) : r.cigar[j][1] \in MT}
QIdx(r, j, s) == QPrefix(r.cigar, j - 1) + (s - r.start - RefPrefix(r.cigar, j - 1)) + 1
BaseAt(r, s) == IF MCover(r, s) = {} THEN 0 - 1 ELSE r.seq[QIdx(r, CHOOSE j \in MCover(r, s) : TRUE, s)]
Complete(r, m) == \A j \in DOMAIN m.offs :
                    LET s == m.pos + m.offs[j] IN
                    Mapped(s) /\ BaseAt(r, s) = m.alt[j] /\ RefAt(s) = m.ref[j] /\ m.alt[j] # m.ref[j]
DeclObsAt(r, s) ==
    LET j == CHOOSE x \in CoverK(r, s) : TRUE
        mq == Bin(r.mapq)
    IN IF r.cigar[j][1] = 2 THEN <<s, "del", 0, 0, mq, 0>>
       ELSE LET qi == QIdx(r, j, s)
                b == r.seq[qi]
                bq == Bin(r.qual[qi])
                firstOf == {i \in DOMAIN G.mnps : G.mnps[i].pos = s /\ Complete(r, G.mnps[i])}
                laterOf == {i \in DOMAIN G.mnps : /\ Complete(r, G.mnps[i])
                                                   /\ \E x \in 2..Len(G.mnps[i].offs) : G.mnps[i].pos + G.mnps[i].offs[x] = s}
            IN IF firstOf # {} THEN <<s, "mnp", CHOOSE i \in firstOf : TRUE, 0, mq, 0>>
               ELSE IF laterOf # {} THEN <<s, "ref", 0, 0, mq, bq>>
               ELSE IF Mapped(s) /\ b # RefAt(s) THEN <<s, "sub", RefAt(s), b, mq, bq>>
               ELSE <<s, "ref", 0, 0, mq, bq>>
InsOps(r) == {j \in DOMAIN r.cigar : r.cigar[j][1] = 1}
DeclInsObs(r, j) == <<r.start + RefPrefix(r.cigar, j - 1), "ins", r.cigar[j][2],
                      Code(r.seq, QPrefix(r.cigar, j - 1) + 1, r.cigar[j][2]), Bin(r.mapq), 0>>
(* the whole read at once: per reference-consuming operation j, the sites start+RefPrefix(j-1) .. start+RefPrefix(j)-1 *)
(* (same definition as DeclObsAt, with the per-read quantities computed once)                                   *)
DeclReadBag(r) ==
    LET c  == r.cigar
        RP == [j \in 0..Len(c) |-> RefPrefix(c, j)]
        QP == [j \in 0..Len(c) |-> QPrefix(c, j)]
        mq == Bin(r.mapq)
        cm == {mi \in DOMAIN G.mnps : Complete(r, G.mnps[mi])}
        firstS == {G.mnps[mi].pos : mi \in cm}
        laterS == UNION {{G.mnps[mi].pos + G.mnps[mi].offs[x] : x \in 2..Len(G.mnps[mi].offs)} : mi \in cm}
        obsOf(j, i) ==
            LET s == r.start + RP[j - 1] + i IN
            IF c[j][1] = 2 THEN <<s, "del", 0, 0, mq, 0>>
            ELSE LET qi == QP[j - 1] + i + 1
                     b == r.seq[qi]
                     bq == Bin(r.qual[qi])
                 IN IF s \in firstS THEN <<s, "mnp", CHOOSE mi \in cm : G.mnps[mi].pos = s, 0, mq, 0>>
                    ELSE IF s \in laterS THEN <<s, "ref", 0, 0, mq, bq>>
                    ELSE IF Mapped(s) /\ b # RefAt(s) THEN <<s, "sub", RefAt(s), b, mq, bq>>
                    ELSE <<s, "ref", 0, 0, mq, bq>>
        base == UNION {{obsOf(j, i) : i \in 0..(c[j][2] - 1)} : j \in {x \in DOMAIN c : c[x][1] \in RefOps}}
        ins  == {DeclInsObs(r, j) : j \in InsOps(r)}
        insb == [o \in ins |-> Cardinality({j \in InsOps(r) : DeclInsObs(r, j) = o})]
    IN [o \in base |-> 1] (+) insb
DeclReadBagBySite(r) ==      \* the site-by-site form; MC_Pileup checks that both agree
    LET span == r.start..(r.start + RefLen(r.cigar) - 1)
        base == [o \in {DeclObsAt(r, s) : s \in span} |-> 1]
        ins  == {DeclInsObs(r, j) : j \in InsOps(r)}
        insb == [o \in ins |-> Cardinality({j \in InsOps(r) : DeclInsObs(r, j) = o})]
    IN base (+) insb

SumBags(f, S) == FoldSet(LAMBDA x, acc : f[x] (+) acc, EmptyBag, S)
Elig(rs) == {i \in DOMAIN rs : Eligible(rs[i])}
DeclTable(rs) == SumBags([i \in Elig(rs) |-> DeclReadBag(rs[i])], Elig(rs))
OpTable(rs)   == SumBags([i \in Elig(rs) |-> RunReadBag(rs[i])], Elig(rs))

(* what one read shows at a site (alleles as recorded in the phase record) *)
Shows(r, s) ==
    (IF MCover(r, s) = {} THEN {}
     ELSE LET b == BaseAt(r, s)
              firstOf == {i \in DOMAIN G.mnps : G.mnps[i].pos = s /\ Complete(r, G.mnps[i])}
              laterOf == {i \in DOMAIN G.mnps : Complete(r, G.mnps[i])
                                                /\ \E x \in 2..Len(G.mnps[i].offs) : G.mnps[i].pos + G.mnps[i].offs[x] = s}
          IN IF firstOf # {} THEN {<<"mnp", i, 0>> : i \in firstOf}
             ELSE IF laterOf # {} THEN {<<"ref", 0, 0>>}
             ELSE {IF Mapped(s) /\ b # RefAt(s) THEN <<"sub", RefAt(s), b>> ELSE <<"ref", 0, 0>>})
    \cup {<<"del", r.cigar[j][2], 0>> : j \in {x \in DOMAIN r.cigar : r.cigar[x][1] = 2 /\ r.start + RefPrefix(r.cigar, x - 1) = s}}
    \cup {<<"ins", r.cigar[j][2], Code(r.seq, QPrefix(r.cigar, j - 1) + 1, r.cigar[j][2])>> :
              j \in {x \in DOMAIN r.cigar : r.cigar[x][1] = 1 /\ r.start + RefPrefix(r.cigar, x - 1) - 1 = s}}
FragShows(rs, f, s) == UNION {Shows(rs[i], s) : i \in {x \in Elig(rs) : rs[x].name = f}}

(* splitting / relabelling match runs *)
ReplaceOp(c, j, new) == SubSeq(c, 1, j - 1) \o new \o SubSeq(c, j + 1, Len(c))
Splits(r) == {[r EXCEPT !.cigar = ReplaceOp(r.cigar, j, <<<<o1, n1>>, <<o2, r.cigar[j][2] - n1>>>>)] :
                 j \in {x \in DOMAIN r.cigar : r.cigar[x][1] \in MT /\ r.cigar[x][2] >= 2},
                 o1 \in MT, o2 \in MT, n1 \in 1..2} \* n1 filtered below
SplitsOK(r) == {x \in Splits(r) : \A j \in DOMAIN x.cigar : x.cigar[j][2] >= 1}
Relabels(r) == {[r EXCEPT !.cigar = ReplaceOp(r.cigar, j, <<<<o, r.cigar[j][2]>>>>)] :
                 j \in {x \in DOMAIN r.cigar : r.cigar[x][1] \in MT}, o \in MT}

SumKeys(t, ks) == FoldSet(LAMBDA x, acc : t[x] + acc, 0, ks)
WellFormed(r) == Len(r.seq) = QLen(r.cigar) /\ Len(r.qual) = Len(r.seq)
=============================================================================
