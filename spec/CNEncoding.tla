------------------------------ MODULE CNEncoding ------------------------------
(***************************************************************************)
(* ENCODING LAYER of the gene-structure model (cn.py:142-264): the          *)
(* constraints the code documents over explicit binaries, one per           *)
(* structure slot <<g, i>>:                                                 *)
(*   <<g, 0>>, <<g, -1>>  the two complete ("diploid inducing") copies of    *)
(*                        every candidate configuration g                    *)
(*   <<g, i>>, 1 <= i < M weak copies (gene only) of a default configuration *)
(*   <<0, i>>, 1 <= i <= M free pseudogene copies ("PSEUDO", the deletion    *)
(*                        configuration's vector)                            *)
(* The error variables E_r, EG_r are forced by the C_COV / CG_COV equations  *)
(* (and bounded by +-cn_max), |.| helpers are eliminated.                    *)
(* Rules (each guarded by On(K); `Drop' switches rules off):                 *)
(*   FSFILTER   weak-fusion filter on the candidate configurations           *)
(*   CDIPLO_LE / CDIPLO_GE   exactly two complete copies                     *)
(*   CDEL       second deletion copy excludes every other slot               *)
(*   CORD_HAP   <<g,-1>> <= <<g,0>>        (symmetry breaking)               *)
(*   CORD_EXTRA <<g,i>> <= <<g,i-1>>, i>1  (symmetry breaking)               *)
(*   EBOUND     |E_r|, |EG_r| <= cn_max                                       *)
(*   WEAK       a weak copy has one pseudogene copy less than its            *)
(*              configuration                                                *)
(*   WEAKDEF    weak copies exist for default configurations only            *)
(*   PSEUDO     the free pseudogene slots exist                              *)
(*   O_DIFF / O_FIT / O_PARS  the three objective components                 *)
(*   PARS_LEFT / PARS_RIGHT   extra parsimony penalty of fusions             *)
(***************************************************************************)
EXTENDS CNModel
CONSTANT Drop
Rules == {"FSFILTER", "CDIPLO_LE", "CDIPLO_GE", "CDEL", "CORD_HAP", "CORD_EXTRA", "EBOUND", "WEAK", "WEAKDEF",
          "PSEUDO", "O_DIFF", "O_FIT", "O_PARS", "PARS_LEFT", "PARS_RIGHT"}
ASSUME Drop \subseteq Rules
On(K) == K \notin Drop

(* ---- variables ------------------------------------------------------------------------- *)
EncCand(c) == IF On("FSFILTER") THEN Cand(c) ELSE Cfgs(c)
EncDel(c) == {g \in EncCand(c) : c.cfgs[g].kind = "deletion"}
HapSlots(c) == {<<g, i>> : g \in EncCand(c), i \in {0, -1}}
WeakCfgs(c) == {g \in EncCand(c) : IF On("WEAKDEF") THEN c.cfgs[g].kind = "default" ELSE c.cfgs[g].kind # "deletion"}
WeakSlots(c) == {<<g, i>> : g \in WeakCfgs(c), i \in 1..(c.M - 1)}
PseudoSlots(c) == IF On("PSEUDO") /\ c.pseudo /\ EncDel(c) # {} THEN {<<0, i>> : i \in 1..c.M} ELSE {}
DelOf(c) == IF EncDel(c) = {} THEN 0 ELSE CHOOSE g \in EncDel(c) : TRUE      \* gene.deletion_allele()

(* ---- constraints ------------------------------------------------------------------------ *)
CDIPLO_LE(H) == Cardinality(H) <= 2
CDIPLO_GE(H) == Cardinality(H) >= 2
CORD_HAP(H) == \A s \in H : s[2] = -1 => <<s[1], 0>> \in H
CORD_EXTRA(W) == \A s \in W : s[2] > 1 => <<s[1], s[2] - 1>> \in W
(* v + CN[del, -1] <= 1 for every slot v of another name (PSEUDO and weak copies included) *)
CDEL(c, V) == (DelOf(c) # 0 /\ <<DelOf(c), -1>> \in V) => \A s \in V : s[1] = DelOf(c)

Haps(c) == {H \in SUBSET HapSlots(c) : /\ On("CDIPLO_LE") => CDIPLO_LE(H)
                                       /\ On("CDIPLO_GE") => CDIPLO_GE(H)
                                       /\ On("CORD_HAP") => CORD_HAP(H)}
Weaks(c) == {W \in SUBSET WeakSlots(c) : On("CORD_EXTRA") => CORD_EXTRA(W)}
Pseudos(c) == {Q \in SUBSET PseudoSlots(c) : On("CORD_EXTRA") => CORD_EXTRA(Q)}
Points(c) ==
    {V \in {p[1] \cup p[2] \cup p[3] : p \in Haps(c) \X Weaks(c) \X Pseudos(c)} : On("CDEL") => CDEL(c, V)}

(* ---- the copy-number vector of a slot ----------------------------------------------------- *)
SlotG(c, s, r) == IF s[1] = 0 THEN c.cfgs[DelOf(c)].g[r] ELSE c.cfgs[s[1]].g[r]
SlotP(c, s, r) ==
    IF ~c.pseudo THEN 0
    ELSE IF s[1] = 0 THEN c.cfgs[DelOf(c)].ps[r]
    ELSE IF s[2] > 0 /\ On("WEAK") THEN c.cfgs[s[1]].ps[r] - 1
    ELSE c.cfgs[s[1]].ps[r]
SlotPen(c, s) ==
    IF s[1] = 0 THEN c.p.pars
    ELSE c.p.pars + (IF On("PARS_LEFT") /\ c.cfgs[s[1]].kind = "left" THEN c.p.parsL ELSE 0)
                  + (IF On("PARS_RIGHT") /\ c.cfgs[s[1]].kind = "right" THEN c.p.parsR ELSE 0)

(* ---- error terms (forced by the equations), their bounds, the objective ------------------- *)
EvalPoint(c, V) ==
    LET R  == 1..NR(c)
        eg == TLCEval([r \in R |-> c.regs[r].c0 - 100 * SumOver(V, LAMBDA s : SlotG(c, s, r))])
        ed == TLCEval([r \in R |-> c.regs[r].c0 - c.regs[r].c1
                                   - 100 * SumOver(V, LAMBDA s : SlotG(c, s, r) - SlotP(c, s, r))])
    IN
    [ feas |-> On("EBOUND") => \A r \in R : /\ Abs(eg[r]) <= c.p.cnMax100
                                            /\ Abs(ed[r]) <= (c.p.cnMax100 \div 100) * Scale(c, r),
      obj  |->   (IF On("O_DIFF") THEN c.p.diff10 * SumOver(R, LAMBDA r : c.regs[r].w10 * FixDiv(Abs(ed[r]), Scale(c, r))) ELSE 0)
               + (IF On("O_FIT") THEN c.p.fit10 * 10 * SumOver(R, LAMBDA r : Abs(eg[r]) * (U \div 100)) ELSE 0)
               + (IF On("O_PARS") THEN 100 * SumOver(V, LAMBDA s : SlotPen(c, s)) ELSE 0) ]

(* ---- projection: the structure a point denotes (deletion and PSEUDO slots are not listed) -- *)
StructOfPoint(c, V) ==
    [g \in Cfgs(c) |-> IF IsDel(c, g) THEN 0 ELSE Cardinality({s \in V : s[1] = g})]
EncTable(c) ==
    UNION {LET v == EvalPoint(c, V) IN IF v.feas THEN {<<StructOfPoint(c, V), v.obj>>} ELSE {} : V \in Points(c)}
MinTable(T) == {t \in T : \A u \in T : u[1] = t[1] => u[2] >= t[2]}

(* THEOREM (TLC, Drop = {}): the structures the encoding can express with a feasible point are  *)
(* exactly the structures that have a well-formed feasible explanation, with the same minimum   *)
(* objective                                                                                     *)
EncodingRefinesSemantics(c) == MinTable(EncTable(c)) = MinTable(Table(c))

Best(T) == MinSet({t[2] : t \in T})
=============================================================================
