--------------------------- MODULE CatalogueBuild ---------------------------
(***************************************************************************)
(* C09 - the star-allele catalogue is a consistent, build-independent      *)
(* partition.                                                              *)
(*                                                                         *)
(* The loader (aldy/gene.py _init_alleles, _init_partials) turns the       *)
(* database allele table into a catalogue.  It is specified as a state     *)
(* machine with one action per loader phase so that every post-state can   *)
(* be inspected:                                                           *)
(*   ReadAlleles -> BuildConfigs -> GroupMajors -> BuildPartials ->        *)
(*   DedupMinors -> done                                                   *)
(*                                                                         *)
(* INPUT TABLE  tab = [NR, Zero, ZeroP, pseudo, NV, Core, reg, NA, al]     *)
(*   regions 1..NR in gene order, Zero / ZeroP = the zero-length ones of   *)
(*   the gene / of the pseudogene copy; pseudo =                           *)
(*   the database has a pseudogene; variants 1..NV, Core = the function-   *)
(*   altering ones, reg[v] = region holding the variant's genome site;     *)
(*   al[a] (a in 1..NA, database order) = [rank, vars, kind, brk, del]:    *)
(*   rank = position of the allele's name in name order (the loader picks  *)
(*   `min(names)`), vars its variants, kind in {"none","left","right",     *)
(*   "deletion","custom"}, brk the fusion breakpoint region, del the       *)
(*   regions of a custom deletion.                                         *)
(* NAMES are abstract: a database allele is named by its index a; a        *)
(* configuration by the index of its least-rank member (0 = default); a    *)
(* major allele by (cfg, core, fus) where fus = 0 or the fusion whose      *)
(* partial it is; a minor by <<fus, a>>.  The real names only have to be   *)
(* unique and resolvable (checked on the projection in CatalogueTrace).    *)
(***************************************************************************)
EXTENDS Naturals, Integers, Sequences, FiniteSets

Structural == {"left", "right", "deletion", "custom"}

MinBy(S, f(_)) == CHOOSE x \in S : \A y \in S : f(x) <= f(y)

(* ---------------------------------------------------------------- ReadAlleles *)
\* the whole-gene deletion allele's variants are not read
VarsOf(tab, a) == IF tab.al[a].kind = "deletion" THEN {} ELSE tab.al[a].vars
CoreOf(tab, a) == VarsOf(tab, a) \cap tab.Core
SilentOf(tab, a) == VarsOf(tab, a) \ tab.Core
Alleles(tab) == 1..tab.NA
Regs(tab) == 1..tab.NR
RankOf(tab, a) == tab.al[a].rank
LeastRank(tab, S) == MinBy(S, LAMBDA a : RankOf(tab, a))

(* --------------------------------------------------------------- BuildConfigs *)
\* raw copy-number vector of a structural allele: <<gene, pseudo>>
RawVec(tab, a) ==
    LET e == tab.al[a] IN
    CASE e.kind = "left"     -> <<[r \in Regs(tab) |-> IF r >= e.brk THEN 1 ELSE 0],
                                  [r \in Regs(tab) |-> IF r < e.brk THEN 1 ELSE 0]>>
      [] e.kind = "right"    -> <<[r \in Regs(tab) |-> IF r < e.brk THEN 1 ELSE 0],
                                  [r \in Regs(tab) |-> IF r >= e.brk THEN 2 ELSE 1]>>
      [] e.kind = "deletion" -> <<[r \in Regs(tab) |-> 0], [r \in Regs(tab) |-> 1]>>
      [] e.kind = "custom"   -> <<[r \in Regs(tab) |-> IF r \in e.del THEN 0 ELSE 1],
                                  [r \in Regs(tab) |-> 1]>>
      [] OTHER               -> <<[r \in Regs(tab) |-> 1], [r \in Regs(tab) |-> 1]>>
\* zero-length regions carry no copies; without a pseudogene the second vector is void
Final(tab, vec) ==
    <<[r \in Regs(tab) |-> IF r \in tab.Zero THEN 0 ELSE vec[1][r]],
      [r \in Regs(tab) |-> IF r \in tab.ZeroP \/ ~tab.pseudo THEN 0 ELSE vec[2][r]]>>
StructAlleles(tab) == {a \in Alleles(tab) : tab.al[a].kind \in Structural}
\* identical vectors are one configuration (the deletion is never merged with another kind)
SameCfg(tab, a, b) ==
    /\ RawVec(tab, a) = RawVec(tab, b)
    /\ (tab.al[a].kind = "deletion") = (tab.al[b].kind = "deletion")
Members(tab, a) == {b \in StructAlleles(tab) : SameCfg(tab, a, b)}
\* configuration id of an allele: least-rank member of its class, 0 = default
CfgOf(tab, a) == IF a \in StructAlleles(tab) THEN LeastRank(tab, Members(tab, a)) ELSE 0
CfgIds(tab) == {CfgOf(tab, a) : a \in StructAlleles(tab)} \cup {0}
FirstMember(tab, c) == MinBy(Members(tab, c), LAMBDA a : a)
DefaultVec(tab) == Final(tab, <<[r \in Regs(tab) |-> 1], [r \in Regs(tab) |-> 1]>>)
ConfigsFixed(tab) ==
    [c \in CfgIds(tab) |->
        IF c = 0 THEN [kind |-> "default", vec |-> DefaultVec(tab)]
        ELSE [kind |-> tab.al[FirstMember(tab, c)].kind, vec |-> Final(tab, RawVec(tab, c))]]

(* ---------------------------------------------------------------- GroupMajors *)
\* a major allele: [cfg, core, fus, minors]; minors: set of [fus, par, neutral]
\* (the two maps are bound once: TLC evaluates a LET-bound function constructor a single time)
CfgMap(tab) == [a \in Alleles(tab) |-> CfgOf(tab, a)]
GroupMajors(tab) ==
    LET cm   == CfgMap(tab)
        co   == [a \in Alleles(tab) |-> CoreOf(tab, a)]
        keys == {<<cm[a], co[a]>> : a \in Alleles(tab)}
    IN {[cfg |-> k[1], core |-> k[2], fus |-> 0,
         minors |-> {[fus |-> 0, par |-> a, neutral |-> SilentOf(tab, a)] :
                        a \in {b \in Alleles(tab) : cm[b] = k[1] /\ co[b] = k[2]}}] : k \in keys}

(* -------------------------------------------------------------- BuildPartials *)
\* a variant survives fusion f iff the gene region holding it is retained
Retained(tab, cfgs, f, v) == cfgs[f].vec[1][tab.reg[v]] > 0
Keep(tab, cfgs, f, S) == {v \in S : Retained(tab, cfgs, f, v)}
\* left-fusion configurations that are extended: the group of the configuration's name-giving
\* (least-rank) allele has no core variant
BareFusions(tab, cfgs) ==
    {f \in DOMAIN cfgs : cfgs[f].kind = "left" /\ CoreOf(tab, f) = {}}
\* `skipDefined` = FALSE: the rule as implemented; TRUE: the proposed repair
\* (fixes/C09-partial-duplicates-defined-fusion.diff): no candidate is created whose core set
\* equals that of a database-defined allele of the same fusion.
DefinedCores(majors, f) == {m.core : m \in {x \in majors : x.cfg = f /\ x.fus = 0 /\ x.core # {}}}
Partials(tab, cfgs, majors, f, skipDefined) ==
    LET parents == {m \in majors : m.cfg = 0 /\ m.fus = 0}
        kepts   == {Keep(tab, cfgs, f, m.core) : m \in parents}
                   \ (IF skipDefined THEN DefinedCores(majors, f) ELSE {})
    IN {[cfg |-> f, core |-> k, fus |-> f,
         minors |-> UNION {{[fus |-> f, par |-> s.par, neutral |-> Keep(tab, cfgs, f, s.neutral)] : s \in m.minors} :
                              m \in {p \in parents : Keep(tab, cfgs, f, p.core) = k}}] : k \in kepts}
BuildPartialsR(tab, cfgs, majors, skipDefined) ==
    LET B == BareFusions(tab, cfgs) IN
    {m \in majors : ~(m.cfg \in B /\ m.core = {})}
    \cup UNION {Partials(tab, cfgs, majors, f, skipDefined) : f \in B}
BuildPartials(tab, cfgs, majors) == BuildPartialsR(tab, cfgs, majors, FALSE)

(* ---------------------------------------------------------------- DedupMinors *)
\* minors of one major with equal variant sets collapse to the least name
Survivor(tab, m, s) == LET same == {t \in m.minors : t.neutral = s.neutral}
                       IN CHOOSE t \in same : \A u \in same : RankOf(tab, t.par) <= RankOf(tab, u.par)
DedupMajor(tab, m) == [m EXCEPT !.minors = {Survivor(tab, m, s) : s \in m.minors}]
DedupMinors(tab, majors) == {DedupMajor(tab, m) : m \in majors}
\* alias table (database allele -> surviving database allele); partial minors are not recorded
Aliases(tab, majors) ==
    UNION {{<<s.par, Survivor(tab, m, s).par>> : s \in m.minors} : m \in {x \in majors : x.fus = 0}}
    \ {p \in (Alleles(tab) \X Alleles(tab)) : p[1] = p[2]}

(* the loader as a function of the table *)
CatalogueR(tab, skipDefined) ==
    LET cfgs == ConfigsFixed(tab)
        m1   == GroupMajors(tab)
        m2   == BuildPartialsR(tab, cfgs, m1, skipDefined)
    IN [cfgs |-> cfgs, majors |-> DedupMinors(tab, m2), removed |-> Aliases(tab, m2)]
Catalogue(tab) == CatalogueR(tab, FALSE)
CatalogueRepaired(tab) == CatalogueR(tab, TRUE)

(* ------------------------------------------------------------------------ *)
(* The property, as predicates over (tab, catalogue).                       *)
(* ------------------------------------------------------------------------ *)
BareLeftFusion(tab, a) == tab.al[a].kind = "left" /\ CoreOf(tab, a) = {}
Resolve(cat, a) == IF \E p \in cat.removed : p[1] = a THEN (CHOOSE p \in cat.removed : p[1] = a)[2] ELSE a
Holders(cat, a) == {m \in cat.majors : \E s \in m.minors : s.fus = 0 /\ s.par = a}
\* every database allele that is not a bare left fusion resolves to exactly one (major, minor)
\* carrying its configuration, core and silent variants
AlleleReachable(tab, cat, a) ==
    LET n == Resolve(cat, a)
        H == Holders(cat, n)
    IN /\ Cardinality(H) = 1
       /\ LET m == CHOOSE x \in H : TRUE
              s == CHOOSE t \in m.minors : t.fus = 0 /\ t.par = n
          IN /\ m.cfg \in DOMAIN cat.cfgs
             /\ cat.cfgs[m.cfg].vec = Final(tab, RawVec(tab, a))
             /\ m.core = CoreOf(tab, a)
             /\ s.neutral = SilentOf(tab, a)
Unreachable(tab, cat) == {a \in Alleles(tab) : ~BareLeftFusion(tab, a) /\ ~AlleleReachable(tab, cat, a)}
EveryAlleleReachable(tab, cat) == Unreachable(tab, cat) = {}
VecOf(cat, m) == IF m.cfg \in DOMAIN cat.cfgs THEN cat.cfgs[m.cfg].vec ELSE << >>
MajorsDistinct(cat) ==
    \A m1, m2 \in cat.majors : m1 # m2 => <<VecOf(cat, m1), m1.core>> # <<VecOf(cat, m2), m2.core>>
\* duplicates of (structure, core set) that are exactly the known shape: a candidate of an extended
\* fusion next to a database-defined allele of the same fusion
DupPairs(cat) == {<<m1, m2>> \in cat.majors \X cat.majors :
                     m1 # m2 /\ <<VecOf(cat, m1), m1.core>> = <<VecOf(cat, m2), m2.core>>}
OnlyPartialVsDefined(cat) ==
    \A p \in DupPairs(cat) : p[1].cfg = p[2].cfg /\ (p[1].fus = 0) # (p[2].fus = 0)

CoreIffFunctional(tab, cat) ==
    \A m \in cat.majors : /\ m.core \subseteq tab.Core
                          /\ \A s \in m.minors : s.neutral \cap tab.Core = {}
MinorsDistinct(cat) ==
    \A m \in cat.majors : \A s, t \in m.minors : s # t => s.neutral # t.neutral
ConfigExists(cat) == \A m \in cat.majors : m.cfg \in DOMAIN cat.cfgs
\* a partial of fusion f carries exactly the parent's variants in retained regions
PartialKeepsRetained(tab, cat) ==
       \A m \in cat.majors : m.fus # 0 =>
          /\ m.cfg = m.fus /\ m.fus \in DOMAIN cat.cfgs /\ cat.cfgs[m.fus].kind = "left"
          /\ \A s \in m.minors :
                /\ s.fus = m.fus /\ s.par \in Alleles(tab) /\ s.par \notin StructAlleles(tab)
                /\ m.core = Keep(tab, cat.cfgs, m.fus, CoreOf(tab, s.par))
                /\ s.neutral = Keep(tab, cat.cfgs, m.fus, SilentOf(tab, s.par))
\* (specification ids only) every default-configuration allele has its candidate under every
\* extended fusion, and the bare fusion itself is gone
PartialsComplete(tab, cat) ==
    \A f \in BareFusions(tab, cat.cfgs) :
        /\ \A a \in Alleles(tab) \ StructAlleles(tab) :
              \E m \in cat.majors :
                  /\ m.cfg = f /\ m.core = Keep(tab, cat.cfgs, f, CoreOf(tab, a))
                  /\ \/ m.fus = f /\ \E s \in m.minors : s.neutral = Keep(tab, cat.cfgs, f, SilentOf(tab, a))
                     \/ m.fus = 0 /\ m.core # {}      \* (repaired rule) a database-defined allele stands for it
        /\ ~\E m \in cat.majors : m.fus = 0 /\ m.cfg = f /\ m.core = {}
\* value form of a catalogue (no identifiers): used to compare catalogues as partitions
ValueForm(cat) ==
    [cfgs   |-> {cat.cfgs[c] : c \in DOMAIN cat.cfgs},
     majors |-> {[vec |-> VecOf(cat, m), core |-> m.core,
                  fusvec |-> IF m.fus = 0 THEN << >> ELSE VecOf(cat, [cfg |-> m.fus]),
                  minors |-> {[par |-> s.par, part |-> s.fus # 0, neutral |-> s.neutral] : s \in m.minors}] :
                    m \in cat.majors},
     removed |-> cat.removed]
\* no two configurations have the same copy-number vectors
ConfigsDistinct(cat) == \A c, d \in DOMAIN cat.cfgs : c # d => cat.cfgs[c].vec # cat.cfgs[d].vec
\* two catalogues (two builds) of one database are the same
BuildIndependent(cat1, cat2) == cat1 = cat2

(* ------------------------------------------------------------------------ *)
(* State machine (one action per loader phase).                             *)
(* ------------------------------------------------------------------------ *)
CONSTANT RepairedRule      \* FALSE: the loader as implemented; TRUE: with the proposed repair
VARIABLES tab, phase, cfgs, majors, removed
cvars == <<tab, phase, cfgs, majors, removed>>

ReadAlleles ==
    /\ phase = "init" /\ phase' = "read"
    /\ UNCHANGED <<tab, cfgs, majors, removed>>
BuildConfigsStep ==
    /\ phase = "read" /\ phase' = "configs"
    /\ cfgs' = ConfigsFixed(tab)
    /\ UNCHANGED <<tab, majors, removed>>
GroupMajorsStep ==
    /\ phase = "configs" /\ phase' = "majors"
    /\ majors' = GroupMajors(tab)
    /\ UNCHANGED <<tab, cfgs, removed>>
BuildPartialsStep ==
    /\ phase = "majors" /\ phase' = "partials"
    /\ majors' = BuildPartialsR(tab, cfgs, majors, RepairedRule)
    /\ UNCHANGED <<tab, cfgs, removed>>
DedupMinorsStep ==
    /\ phase = "partials" /\ phase' = "done"
    /\ majors' = DedupMinors(tab, majors)
    /\ removed' = Aliases(tab, majors)
    /\ UNCHANGED <<tab, cfgs>>
LoaderNext == ReadAlleles \/ BuildConfigsStep \/ GroupMajorsStep \/ BuildPartialsStep \/ DedupMinorsStep
Cat == [cfgs |-> cfgs, majors |-> majors, removed |-> removed]
=============================================================================
