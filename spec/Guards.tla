------------------------------- MODULE Guards -------------------------------
(***************************************************************************)
(* C19 -- no genotype is reported from no data.                            *)
(*                                                                         *)
(* One run of genotype() for one gene, restricted to what C19 talks about: *)
(* the no-data guards, the structure routes, the error path and what ends  *)
(* up in the output file.  The stages proper are abstracted (they succeed  *)
(* or raise "no solutions").                                               *)
(*                                                                         *)
(* Two layers (DESIGN 3.1):                                                *)
(*  - semantic layer: MustFail, NoCall, Explained, SimpleLine, PseudoDel   *)
(*    over (facts, outcome) records.  This is the PROPERTY; the same       *)
(*    operators judge recorded executions in trace/GuardsTrace.tla.        *)
(*  - implementation layer: the actions below follow the order of the code *)
(*    (sam.py:97-135 Sample.__init__, genotype.py:173-246, cn.py:46-79).   *)
(*    Three constants switch between the code AS SHIPPED (all FALSE) and   *)
(*    the proposed repairs (fixes/C19-*.diff):                             *)
(*      DepthGuardAlways  genotype.py:207 `if profile.cn_region and avg <  *)
(*                        min` -- the depth guard is conditioned on the    *)
(*                        neutral region being in use, which it is not on  *)
(*                        the user-structure route (--cn / cn_solution=).  *)
(*      LocusByRegions    the depth is averaged over every position an     *)
(*                        eligible read of the WIDE region covers, so reads*)
(*                        that lie between gene and pseudogene count as    *)
(*                        locus depth although no read covers either.      *)
(*      SimpleLineAlways  the simple-format line is completed only on the  *)
(*                        errors raised by genotype() itself: the neutral- *)
(*                        region errors are raised before the sample/gene  *)
(*                        columns are written, the structure-stage error   *)
(*                        after them but without the line end.             *)
(***************************************************************************)
EXTENDS Integers, Sequences, FiniteSets, TLC

CONSTANTS DepthGuardAlways, LocusByRegions, SimpleLineAlways,
          MaxAvg,        \* depths 0..MaxAvg
          Mins           \* values of min_avg_coverage explored

Routes   == {"profile", "bam-profile", "user-structure"}
Inputs   == {"alignment", "vcf"}
OutKinds == {"aldy", "vcf", "simple"}
DiploidMin == 2          \* sam.py:129 (not configurable)

(* ------------------------------------------------------------------------ *)
(* Facts about the input of one run.                                        *)
(*  locusReads   eligible reads overlapping a gene or pseudogene region     *)
(*  avg          average depth over the positions covered by the eligible   *)
(*               reads of the locus (coverage.average_coverage)             *)
(*  neutralReads reads overlapping the copy-number-neutral region           *)
(*  neutralDepth aligned bases of those reads / length of the region        *)
(*  pseudoOnly   reads on the pseudogene only, at the depth of the neutral  *)
(*               region (two copies)                                        *)
(*  cnLow        normalised depth of all regions together is below half of  *)
(*               the smallest configuration (cn.py:72)                      *)
(* ------------------------------------------------------------------------ *)
FactSpace ==
    [input : Inputs, route : Routes, out : OutKinds, multi : BOOLEAN,
     locusReads : 0..1, avg : 0..MaxAvg, min : Mins,
     neutralReads : 0..1, neutralDepth : 0..3, pseudoOnly : BOOLEAN, cnLow : BOOLEAN]

WellFormed(f) ==
    /\ f.locusReads > 0 => f.avg >= 1             \* a covered position has depth >= 1
    /\ f.pseudoOnly => f.locusReads > 0
    /\ (f.neutralReads = 0) <=> (f.neutralDepth = 0)
    \* the pseudogene at two-copy depth is at least the whole-gene deletion configuration
    /\ (f.pseudoOnly /\ f.neutralDepth >= DiploidMin) => ~f.cnLow
    \* reads between gene and pseudogene only (avg > 0 without locus reads): every region is empty
    /\ (f.locusReads = 0 /\ f.avg > 0) => f.cnLow

NeutralInUse(f) == f.route # "user-structure"    \* Profile("user_provided") has no cn_region

(* ---------------------------- semantic layer ---------------------------- *)
(* outcome: [report, err, raised, logged, out]                              *)
(*   report  <<>> | <<"del">> (whole-gene deletion on every copy) | <<"alleles">>        *)
(*   err     "" | "AldyException" | any other exception type name                        *)
(*   out     tokens written to the output file: "S" sample column, "G" gene column,      *)
(*           "C" a star-allele call, "NL" end of line                                    *)
MustFail(f) ==
    /\ f.input = "alignment"                       \* a VCF is exempt: absent records are reference
    /\ \/ f.locusReads = 0
       \/ f.avg < f.min
       \/ NeutralInUse(f) /\ f.neutralReads = 0

NoCall(f, o) ==              \* NoCallFromNoData
    (f.input = "alignment" /\ o.report # <<>>) =>
        /\ f.locusReads > 0
        /\ f.avg >= f.min
        /\ NeutralInUse(f) => f.neutralReads > 0

HasToken(s, t) == \E i \in DOMAIN s : s[i] = t
Explained(f, o) ==           \* ErrorIsExplained: for a finished run
    /\ o.err \in {"", "AldyException"}
    /\ o.err = "" <=> o.report # <<>>                \* either a call or an error, never neither/both
    /\ o.err # "" =>
         /\ IF f.multi THEN o.logged /\ ~o.raised ELSE o.raised
         /\ ~HasToken(o.out, "C")                    \* no result exists for the gene
    /\ o.err = "" => HasToken(o.out, "C")

SimpleLine(f, o) ==          \* SimpleOutputEmptyLine
    (f.out = "simple" /\ o.err # "") => o.out = <<"S", "G", "NL">>

PseudoApplies(f) ==
    /\ f.input = "alignment" /\ NeutralInUse(f)      \* the structure is estimated
    /\ f.pseudoOnly /\ f.neutralDepth >= DiploidMin /\ f.avg >= f.min
PseudoDel(f, o) ==           \* PseudogeneOnlyIsDeletion
    PseudoApplies(f) => o.err = "" /\ o.report = <<"del">>

(* ------------------------- implementation layer ------------------------- *)
VARIABLES facts, pc, struct, report, err, raised, logged, out
vars == <<facts, pc, struct, report, err, raised, logged, out>>

Outcome == [report |-> report, err |-> err, raised |-> raised, logged |-> logged, out |-> out]
Finished == pc \in {"done", "failed"}

Init ==
    /\ facts \in {f \in FactSpace : WellFormed(f)}
    /\ pc = "load" /\ struct = "" /\ report = <<>> /\ err = "" /\ raised = FALSE /\ logged = FALSE /\ out = <<>>

Alignment == facts.input = "alignment"

(* every error leaves genotype() as an AldyException; a multi-gene run logs it and goes on *)
Fail(line) ==
    /\ pc' = "failed" /\ err' = "AldyException"
    /\ raised' = ~facts.multi /\ logged' = facts.multi
    /\ out' = IF facts.out = "simple" THEN (IF SimpleLineAlways THEN <<"S", "G", "NL">> ELSE line) ELSE out
    /\ UNCHANGED <<facts, struct, report>>

(* Sample.__init__: coverage.py:189 (no read in the neutral region), sam.py:129 (its depth below two) *)
NeutralEmpty ==
    /\ pc = "load" /\ Alignment /\ NeutralInUse(facts) /\ facts.neutralReads = 0
    /\ Fail(out)                                   \* nothing written yet
DiploidTooLow ==
    /\ pc = "load" /\ Alignment /\ NeutralInUse(facts) /\ facts.neutralReads > 0
    /\ facts.neutralDepth < DiploidMin
    /\ Fail(out)
Loaded ==
    /\ pc = "load"
    /\ ~(Alignment /\ NeutralInUse(facts) /\ facts.neutralDepth < DiploidMin)
    /\ pc' = "prefix" /\ UNCHANGED <<facts, struct, report, err, raised, logged, out>>

(* genotype.py:197-204 *)
Prefix ==
    /\ pc = "prefix"
    /\ out' = IF facts.out = "simple" THEN <<"S", "G">> ELSE out
    /\ pc' = "depth" /\ UNCHANGED <<facts, struct, report, err, raised, logged>>

(* genotype.py:205-220 *)
DepthGuardOn == Alignment /\ (DepthGuardAlways \/ NeutralInUse(facts))
DepthTooLow  == IF LocusByRegions THEN facts.locusReads = 0 \/ facts.avg < facts.min
                ELSE facts.avg < facts.min
AvgBelowMin ==       \* covers LocusEmpty: no eligible read gives avg = 0
    /\ pc = "depth" /\ DepthGuardOn /\ DepthTooLow
    /\ Fail(Append(out, "NL"))
DepthOK ==
    /\ pc = "depth" /\ ~(DepthGuardOn /\ DepthTooLow)
    /\ pc' = "cn" /\ UNCHANGED <<facts, struct, report, err, raised, logged, out>>

(* cn.estimate_cn: cn.py:46 user structure / VCF, cn.py:72 low-depth guard, else the ILP *)
UserStructure ==
    /\ pc = "cn" /\ (facts.route = "user-structure" \/ ~Alignment)
    /\ struct' = "given" /\ pc' = "stages"
    /\ UNCHANGED <<facts, report, err, raised, logged, out>>
CNTooLow ==
    /\ pc = "cn" /\ Alignment /\ NeutralInUse(facts) /\ facts.cnLow
    /\ Fail(out)                                   \* raised inside cn.py: the line stays open
Estimated ==
    /\ pc = "cn" /\ Alignment /\ NeutralInUse(facts) /\ ~facts.cnLow
    /\ \/ facts.pseudoOnly /\ struct' = "del"      \* the structure stage is optimal (C03)
       \/ ~facts.pseudoOnly /\ struct' = "some"
    /\ pc' = "stages" /\ UNCHANGED <<facts, report, err, raised, logged, out>>
NoStructure ==       \* genotype.py:240-243
    /\ pc = "cn" /\ Alignment /\ NeutralInUse(facts) /\ ~facts.cnLow /\ ~facts.pseudoOnly
    /\ Fail(Append(out, "NL"))

(* major / minor stages: genotype.py:263, 315 *)
StagesFail ==
    /\ pc = "stages" /\ struct # "del"             \* nothing to solve without a gene copy
    /\ Fail(Append(out, "NL"))
Write ==
    /\ pc = "stages"
    /\ report' = IF struct = "del" THEN <<"del">> ELSE <<"alleles">>
    /\ out' = IF facts.out = "simple" THEN out \o <<"C", "NL">> ELSE Append(out, "C")
    /\ pc' = "done" /\ UNCHANGED <<facts, struct, err, raised, logged>>

Next == NeutralEmpty \/ DiploidTooLow \/ Loaded \/ Prefix \/ AvgBelowMin \/ DepthOK
        \/ UserStructure \/ CNTooLow \/ Estimated \/ NoStructure \/ StagesFail \/ Write
Spec == Init /\ [][Next]_vars /\ WF_vars(Next)

(* ------------------------------ invariants ------------------------------ *)
TypeOK ==
    /\ pc \in {"load", "prefix", "depth", "cn", "stages", "done", "failed"}
    /\ report \in {<<>>, <<"del">>, <<"alleles">>}
    /\ err \in {"", "AldyException"}
NoCallFromNoData          == NoCall(facts, Outcome)
ErrorIsExplained          == Finished => Explained(facts, Outcome)
SimpleOutputEmptyLine     == Finished => SimpleLine(facts, Outcome)
PseudogeneOnlyIsDeletion  == Finished => PseudoDel(facts, Outcome)
SimpleLineOnceStarted     == (Finished /\ out # <<>>) => SimpleLine(facts, Outcome)   \* the columns were written: the line must be closed
GuardedRunsFail           == (pc = "done" /\ MustFail(facts)) => FALSE     \* = NoCallFromNoData, from the other side
Terminates                == <>Finished
=============================================================================
