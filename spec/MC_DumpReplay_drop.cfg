INVARIANT DropBreaks
INVARIANT SameResultIffRestored
