----------------------------- MODULE HistoryGen -----------------------------
(***************************************************************************)
(* C14 binding (A): TLC generates the histories the harness replays into   *)
(* real Python processes.  The FULL operation alphabet of the property     *)
(* (2 gene databases A, B; a third, C, that fails; samples s1, s2; every   *)
(* public accessor of gene / solution / coverage objects; both writers;    *)
(* query printing; the debug-store perturbations; FreshProcess(seed)).     *)
(*                                                                         *)
(*   HistoryGen_pairs.cfg  exhaustive: every behaviour of History!Spec of  *)
(*                         length 2 is printed (<<"V","H",<<i,j>>>>)       *)
(*   HistoryGen_sim.cfg    -simulate: random behaviours of length GEN_LEN  *)
(* Operations are printed as indices into Alphabet, which is written to    *)
(* IOEnv.OUT_FILE (ndjson, one operation record per line) so that harness  *)
(* and specification share ONE alphabet.                                   *)
(*   GEN_SEEDS  number of hash seeds besides 0 (FreshProcess(1..GEN_SEEDS)) *)
(*   GEN_SIM    "1": alphabet of worlds with simulated samples (full);     *)
(*              "0": worlds with synthetic Coverage objects (no BAM, hence *)
(*              no Genotype / GenotypeMulti)                               *)
(***************************************************************************)
EXTENDS History, Json, IOUtils, SequencesExt

GeneAccessors == <<"get_functional", "is_functional", "get_rsid", "get_refseq", "get_allele", "region_at",
                   "has_coverage", "Gene.__getitem__", "deletion_allele", "get_wide_region", "Gene.__contains__",
                   "get_minor_mutations", "CNConfig.__str__">>
SolutionAccessors == <<"SolvedAllele.mutations", "SolvedAllele.major_repr", "SolvedAllele.__str__",
                       "CNSolution.position_cn", "CNSolution.max_cn", "CNSolution.__str__", "MajorSolution.__str__",
                       "MinorSolution.get_diplotype", "MinorSolution.get_major_diplotype",
                       "MinorSolution.get_minor_diplotype", "MinorSolution.get_major_name",
                       "MinorSolution.get_minor_name", "MinorSolution.get_mutation_coverages",
                       "MinorSolution.__str__", "estimate_diplotype">>
CoverageAccessors == <<"Coverage.filtered", "Coverage.total", "Coverage.percentage", "Coverage.dump",
                       "Coverage.single_copy", "Coverage.average_coverage", "Coverage.__getitem__",
                       "Coverage.region_coverage", "Coverage.basic_filter", "Coverage.quality_filter">>
AccessorNames == GeneAccessors \o SolutionAccessors \o CoverageAccessors

NSeeds == atoi(IOEnv.GEN_SEEDS)
WithSamples == IOEnv.GEN_SIM = "1"
Map(s, F(_)) == [i \in DOMAIN s |-> F(s[i])]
GenoOps ==
    <<Op("Genotype", "aldy/s1", <<"A">>, 0), Op("Genotype", "aldy/s1", <<"B">>, 0), Op("Genotype", "aldy/s1", <<"C">>, 0),
      Op("Genotype", "vcf/s1", <<"A">>, 0), Op("Genotype", "vcf/s1", <<"B">>, 0),
      Op("Genotype", "cn/s1", <<"A">>, 0), Op("Genotype", "cn/s1", <<"B">>, 0),
      Op("Genotype", "aldy/s2", <<"A">>, 0), Op("Genotype", "aldy/s2", <<"B">>, 0),
      Op("GenotypeMulti", "aldy/s1", <<"A", "B">>, 0), Op("GenotypeMulti", "aldy/s1", <<"B", "A">>, 0),
      Op("GenotypeMulti", "aldy/s1", <<"A", "C", "B">>, 0), Op("GenotypeMulti", "aldy/s1", <<"C", "A">>, 0),
      Op("GenotypeMulti", "vcf/s1", <<"A", "B">>, 0), Op("GenotypeMulti", "cn/s1", <<"A", "B">>, 0)>>
StageOps == <<Op("Stage", "cn", <<"A">>, 0), Op("Stage", "major", <<"A">>, 0), Op("Stage", "minor", <<"A">>, 0),
              Op("Stage", "cn", <<"B">>, 0), Op("Stage", "major", <<"B">>, 0), Op("Stage", "minor", <<"B">>, 0)>>
AccessorOps == Map(AccessorNames, LAMBDA a : Op("Accessor", a, <<"A", "B">>, 0))
WriteOps == <<Op("Write", "decomposition", <<"A">>, 0), Op("Write", "decomposition", <<"B">>, 0),
              Op("Write", "vcf", <<"A">>, 0), Op("Write", "vcf", <<"B">>, 0)>>
QueryOps == <<Op("Query", "all", <<"A">>, 0), Op("Query", "cn", <<"A">>, 0), Op("Query", "major", <<"A">>, 0),
              Op("Query", "minor", <<"A">>, 0), Op("Query", "all", <<"B">>, 0), Op("Query", "minor", <<"B">>, 0)>>
StoreOps == <<Op("Store", "clear", <<>>, 0), Op("Store", "poison", <<>>, 0)>>
FreshOps == [s \in 1..NSeeds |-> Op("FreshProcess", "", <<>>, s)]
Alphabet == (IF WithSamples THEN GenoOps ELSE <<>>) \o StageOps \o AccessorOps \o WriteOps \o QueryOps \o StoreOps \o FreshOps

GenOps == Range(Alphabet)
GenGenes == {"A", "B", "C"}
GenFailing == {"C"}
GenStruct == [c \in {} |-> ""]
GenLen == atoi(IOEnv.GEN_LEN)
NoHazards == {}

IdxOf(op) == CHOOSE i \in DOMAIN Alphabet : Alphabet[i] = op
ASSUME Cardinality(GenOps) = Len(Alphabet)                       \* no duplicates
ASSUME ndJsonSerialize(IOEnv.OUT_FILE, Alphabet)

(* printed once per behaviour, when the history is complete *)
Emit == Len(hist) = GenLen => PrintT(<<"V", "H", [i \in DOMAIN hist |-> IdxOf(hist[i])]>>)
(* a history that ends with FreshProcess exercises nothing after it: not emitted, not extended *)
Useful == Len(hist) = GenLen => Last(hist).k # "FreshProcess"
EmitUseful == (Len(hist) = GenLen /\ Last(hist).k # "FreshProcess") => PrintT(<<"V", "H", [i \in DOMAIN hist |-> IdxOf(hist[i])]>>)
=============================================================================
