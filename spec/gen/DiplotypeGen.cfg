SPECIFICATION Spec
