CONSTANT Ops <- GenOps
CONSTANT AllGenes <- GenGenes
CONSTANT Failing <- GenFailing
CONSTANT Struct <- GenStruct
CONSTANT MaxLen <- GenLen
CONSTANT Hazards <- NoHazards
SPECIFICATION Spec
INVARIANT EmitUseful
CHECK_DEADLOCK FALSE
