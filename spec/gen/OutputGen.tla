------------------------------ MODULE OutputGen ------------------------------
(***************************************************************************)
(* Binding (A) of C12: emit every solution list of the MC_Output universe  *)
(* (7 copy options, 1..MaxCopies copies, 1..MaxSols solutions) as one      *)
(* ndjson line: a list of solutions, each a list of option numbers 1..7    *)
(* (numbering = OptSeq below, same options as MC_Output!CopyOptions).      *)
(* IOEnv.GEN_SHAPE = "2x2" (default), "2x3" or "3x2".                      *)
(***************************************************************************)
EXTENDS Integers, Sequences, FiniteSets, TLC, Json, IOUtils, SequencesExt

MaxSols == IF IOEnv.GEN_SHAPE = "3x2" THEN 3 ELSE 2
MaxCopies == IF IOEnv.GEN_SHAPE = "2x3" THEN 3 ELSE 2
(* option = <<allele, added, missing>> over variant ids 1 sub, 2 ins, 3 del, 4 MNP *)
OptSeq == << <<"A", <<>>, <<>>>>, <<"A", <<4>>, <<>>>>, <<"A", <<>>, <<1>>>>, <<"B", <<>>, <<>>>>,
             <<"B", <<1>>, <<3>>>>, <<"B", <<>>, <<2, 3>>>>, <<"C", <<>>, <<4>>>> >>
CopySeqs == UNION {[1..n -> 1..Len(OptSeq)] : n \in 1..MaxCopies}
SolLists == UNION {[1..m -> CopySeqs] : m \in 1..MaxSols}
ASSUME ndJsonSerialize(IOEnv.OUT_FILE, SetToSeq({[s |-> L] : L \in SolLists}))
ASSUME ndJsonSerialize(IOEnv.OUT_FILE \o ".opts", <<[opts |-> OptSeq]>>)
ASSUME PrintT(<<"V", "CASES", Cardinality(SolLists)>>)

VARIABLE x
Init == x = 0
Next == x' = x
Spec == Init /\ [][Next]_x
=============================================================================
