---------------------------- MODULE VcfInputGen ----------------------------
(***************************************************************************)
(* Binding (A): emits the gene and every file of MC_VcfInput as ndjson     *)
(* (IOEnv.OUT_FILE).  Line 1: the gene; then one line per file             *)
(*   [id, recs, het]   het = name of the allele the file carries           *)
(*                     heterozygously (CarriesHet), "" otherwise.          *)
(* IOEnv.GEN_MODE = "quick": all files over U2 (1 and 2 records) plus every *)
(* K-th single-record file over U1 (K = IOEnv.GEN_K, offset IOEnv.GEN_S);  *)
(* "full": every single-record file over U1 and all U2 x U2 files.         *)
(***************************************************************************)
EXTENDS MC_VcfInput, Json, IOUtils

AllAlts == UNION {AltOf[rf] : rf \in AllRefs}
AllGTs == {G00, G01, G11, G12, Gm1, G001}
U1 == {Rec(x[1], x[2], x[3], x[4]) :
         x \in {y \in (1..6) \X AllRefs \X AllAlts \X AllGTs :
                  y[2] \in Refs(y[1]) /\ y[3] \in AltOf[y[2]] /\ y[4] \in GTs(y[3])}}
ASSUME U2 \subseteq U1

StrToNat(s) == CHOOSE n \in 0..100000 : ToString(n) = s
K == IF IOEnv.GEN_MODE = "full" THEN 1 ELSE StrToNat(IOEnv.GEN_K)
S == IF IOEnv.GEN_MODE = "full" THEN 0 ELSE StrToNat(IOEnv.GEN_S)

U1Seq == SetToSeq(U1)
Singles == {<<U1Seq[i]>> : i \in {j \in DOMAIN U1Seq : j % K = S % K}} \cup {<<r>> : r \in U2}
Pairs == {<<a, b>> : a, b \in U2}
Files == SetToSeq({<<>>} \cup Singles \cup Pairs)

HetOf(f) ==
    LET A == {i \in DOMAIN MCGene.alleles : CarriesHet(MCGene, f, MCGene.alleles[i])}
    IN  IF A = {} THEN "" ELSE MCGene.alleles[CHOOSE i \in A : TRUE].name

GeneLine == [k |-> "gene", window |-> Window, lo |-> 0,
             cat |-> SetToSeq(MCGene.cat),
             mnps |-> SetToSeq(MCGene.mnps),
             alleles |-> [i \in DOMAIN MCGene.alleles |->
                            [name |-> MCGene.alleles[i].name, vs |-> SetToSeq(MCGene.alleles[i].vs)]]]
Lines == <<GeneLine>> \o [i \in DOMAIN Files |-> [k |-> "file", id |-> i, recs |-> Files[i], het |-> HetOf(Files[i])]]

ASSUME ndJsonSerialize(IOEnv.OUT_FILE, Lines)
ASSUME PrintT(<<"V", "FILES", Len(Files), Cardinality(U1), Cardinality(U2)>>)

GenSpec == MCInit /\ [][UNCHANGED vars]_vars
=============================================================================
