SPECIFICATION GSpec
CONSTANTS
  NAlt = 3
  MaxLeft = 2
  PseudoZero = TRUE
  RepairedRule = FALSE
