SPECIFICATION GenSpec
