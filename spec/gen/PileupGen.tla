----------------------------- MODULE PileupGen -----------------------------
(* Binding (A) of C06: emits the single-read pool of MC_Pileup (exactly the reads its Pick action *)
(* can produce) as ndjson to IOEnv.OUT_FILE; the harness writes them to real BAMs.                *)
EXTENDS MC_Pileup

PoolWalk  == {MkRead(c, st, m, 1, "plain", 1) : c \in CigarsOf(MaxOps, MaxLen), st \in Starts, m \in Masks}
PoolEdge  == {MkRead(c, st, m, qc, "plain", 1) : c \in CigarsOf(2, 2), st \in {8, 9}, m \in {0, 1}, qc \in {1, 2}}
PoolFlags == {MkRead(c, 4, m, qc, fl, 1) : c \in CigarsOf(2, 2), m \in {1, 2}, qc \in {1, 2}, fl \in Flags}
PoolSingle == PoolWalk \cup PoolEdge \cup PoolFlags


ASSUME ndJsonSerialize(IOEnv.OUT_FILE, SetToSeq(PoolSingle))
ASSUME PrintT(<<"V", "POOL", Cardinality(PoolSingle)>>)
GenSpec == MCInit /\ [][UNCHANGED mcvars]_mcvars
=============================================================================
