CONSTANTS
  G <- MCGene
  MaxOps = 3
  MaxLen = 3
  NReads = 1
  Mode = "single"
SPECIFICATION GenSpec
