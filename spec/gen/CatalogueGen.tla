---------------------------- MODULE CatalogueGen ----------------------------
(***************************************************************************)
(* Binding (A) for C09: emits the input tables of MC_Catalogue (one JSON   *)
(* object per table: list of [vars, kind, brk, del] for the non-reference  *)
(* alleles).  The harness realises each as a YAML database with hostile    *)
(* names / labels and loads it with the real Gene for both builds.         *)
(***************************************************************************)
EXTENDS MC_Catalogue, Json, IOUtils, SequencesExt

Bags == {x \in Sorted(NAlt, 1) : GoodBag(x)}
Rec(t) == [alt |-> [i \in 1..Len(t) |->
                      LET e == Entry(t[i]) IN
                      [vars |-> SetToSeq(e.vars), kind |-> e.st.kind, brk |-> e.st.brk, del |-> SetToSeq(e.st.del)]]]
ASSUME ndJsonSerialize(IOEnv.OUT_FILE, SetToSeq({Rec(t) : t \in Bags}))
ASSUME PrintT(<<"V", "CASES", Cardinality(Bags)>>)
GInit == tab = << >> /\ phase = "gen" /\ cfgs = << >> /\ majors = {} /\ removed = {}
GSpec == GInit /\ [][UNCHANGED cvars]_cvars
=============================================================================
