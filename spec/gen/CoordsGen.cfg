SPECIFICATION GSpec
CONSTANTS
  L = 6
  SeqAlpha = {0, 1}
  AltAlpha = {0, 2}
  MaxGap = 2
  BothGaps = TRUE
