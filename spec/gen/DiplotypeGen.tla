---------------------------- MODULE DiplotypeGen ----------------------------
(***************************************************************************)
(* Binding (A) of C11: emit every case of the MC_Diplotype universe -      *)
(* every sequence (bag x order) of 0..GenMaxN alleles over                 *)
(* {1,2,4,13} x {no letter, letter}, every tandem list of TC_all (incl.    *)
(* the same-number tandem), with and without deletion allele (n <= 2) -    *)
(* as one ndjson line [a, t, d] for replay into the real code.             *)
(* GenMaxN comes from the environment (IOEnv.GEN_MAXN), the tandem lists   *)
(* from IOEnv.GEN_TC ("4": single-tandem lists only, else also the two    *)
(* two-entry lists).                                                       *)
(***************************************************************************)
EXTENDS Integers, Sequences, FiniteSets, TLC, Json, IOUtils, SequencesExt

GenMaxN == IF IOEnv.GEN_MAXN = "5" THEN 5 ELSE IF IOEnv.GEN_MAXN = "3" THEN 3 ELSE 4
Nums == {1, 2, 4, 13}
Sufs == {0, 3}
TC4 == { <<>>, << <<13, 1>> >>, << <<1, 4>> >>, << <<2, 2>> >> }
TC == IF IOEnv.GEN_TC = "4" THEN TC4       \* quick tier: single-tandem lists only
      ELSE TC4 \cup { << <<13, 1>>, <<1, 4>> >>, << <<2, 2>>, <<13, 1>> >> }
Inputs == UNION {[1..k -> Nums \X Sufs] : k \in 0..GenMaxN}
Cases == {[a |-> s, t |-> T, d |-> h] : s \in Inputs, T \in TC, h \in BOOLEAN} 
CasesOK == {c \in Cases : c.d => Len(c.a) <= 2}
ASSUME ndJsonSerialize(IOEnv.OUT_FILE, SetToSeq(CasesOK))
ASSUME PrintT(<<"V", "CASES", Cardinality(CasesOK)>>)

VARIABLE x
Init == x = 0
Next == x' = x
Spec == Init /\ [][Next]_x
=============================================================================
