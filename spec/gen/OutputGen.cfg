SPECIFICATION Spec
