SPECIFICATION Spec
