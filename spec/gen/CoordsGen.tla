------------------------------ MODULE CoordsGen ------------------------------
(***************************************************************************)
(* Binding (A) for C08: emits every (database, written variant) case of    *)
(* MC_Coords together with what the specification says the loader must     *)
(* produce (maps, lookup sequence, loaded variant or Dropped), grouped per *)
(* database.  The harness realises each database as YAML (one allele per   *)
(* variant), loads it with the real Gene and compares.                     *)
(***************************************************************************)
EXTENDS MC_Coords, Json, IOUtils, SequencesExt

DbCases == {<<s, st, c>> : s \in Seqs, st \in {1, -1}, c \in {x \in Cigars : GoodCigar(x)}}
DbRecord(t) ==
    LET vw == View(t[1], t[2], t[3]) IN
    [seq |-> t[1], strand |-> t[2], cig |-> t[3], g |-> vw.g, r2c |-> vw.r2c, c2r |-> vw.c2r,
     vars |-> SetToSeq({[w |-> x, v |-> Conv(vw, x), decidable |-> HasBlock(vw, x)] :
                           x \in {y \in Written(t[1]) : GoodW(t[1], y)}})]
ASSUME ndJsonSerialize(IOEnv.OUT_FILE, SetToSeq({DbRecord(t) : t \in DbCases}))
ASSUME PrintT(<<"V", "CASES", Cardinality(DbCases)>>)

GInit == seq = << >> /\ strand = 1 /\ cig = << >> /\ w = Dropped /\ pc = "" /\ v = Dropped
GNext == UNCHANGED mvars
GSpec == GInit /\ [][GNext]_mvars
=============================================================================
