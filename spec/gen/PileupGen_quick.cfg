CONSTANTS
  G <- MCGene
  MaxOps = 3
  MaxLen = 2
  NReads = 1
  Mode = "single"
SPECIFICATION GenSpec
