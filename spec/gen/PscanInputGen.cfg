SPECIFICATION GenSpec
