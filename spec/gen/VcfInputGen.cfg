SPECIFICATION GenSpec
