---------------------------- MODULE PipelineGen ----------------------------
(***************************************************************************)
(* Binding (A) of C10: the stage results of the MC_Pipeline universe as     *)
(* scripts for the real genotype().  Pipeline.tla treats the three stages   *)
(* as oracles; here every combination of what they may return is emitted:   *)
(*   g    gap in units (0, 1000 = 0.1, 3000 = 0.3)                          *)
(*   cn   Seq(score)            1-2 structures, best first                  *)
(*   maj  Seq(Seq(raw))         0-2 major candidates per structure          *)
(*   min  Seq(Seq(raw | -1))    the refinement of every candidate (-1: none)*)
(* The harness runs the REAL genotype() (and the real estimate_minor        *)
(* wrapper with its score carry-over) on a small sample while               *)
(* estimate_cn / estimate_major / solve_minor_model return exactly these    *)
(* results as real solution objects; the recorded run is validated by       *)
(* PipelineTrace like any other run.                                        *)
(***************************************************************************)
EXTENDS Integers, Sequences, FiniteSets, TLC, Json, IOUtils, SequencesExt

CNScores == {0, 400, 2500}
RawScores == {0, 600, 2900}
MinScores == {0, 600, -1}
Gaps == {0, 1000, 3000}
CNs == {<<a>> : a \in CNScores} \cup {s \in {<<a, b>> : a \in CNScores, b \in CNScores} : s[1] <= s[2]}
PerStruct == {[maj |-> <<>>, min |-> <<>>]}
             \cup {[maj |-> <<a>>, min |-> <<x>>] : a \in RawScores, x \in MinScores}
             \cup {[maj |-> <<a, b>>, min |-> <<x, y>>] : a \in RawScores, b \in RawScores, x \in MinScores, y \in MinScores}
(* the universe is a product: Gaps x CNs x PerStruct^(number of structures); the three factors are emitted and the  *)
(* harness forms the product (147,894 + 819 scripts per gap; TLC needs minutes to serialise the product itself)      *)
Factors == << [k |-> "gaps", v |-> SetToSeq(Gaps)], [k |-> "cns", v |-> SetToSeq(CNs)], [k |-> "per", v |-> SetToSeq(PerStruct)] >>
ASSUME ndJsonSerialize(IOEnv.OUT_FILE, Factors)
ASSUME PrintT(<<"V", "CASES", Cardinality(Gaps), Cardinality(CNs), Cardinality(PerStruct)>>)

VARIABLE x
Init == x = 0
Next == x' = x
Spec == Init /\ [][Next]_x
=============================================================================
