------------------------------ MODULE ParamsGen ------------------------------
(***************************************************************************)
(* Case emitter of C18 (binding A): writes every case of                   *)
(* ParamsCases!AllCases - the plans model-checked by mc/MC_Params - with   *)
(* the outcome the specification demands, one JSON object per line, to     *)
(* IOEnv.OUT_FILE.  Line 1 is a header with the documented parameters,     *)
(* their types and defaults (cross-checked against the real class).        *)
(*   st    "ok" | "reject" | "unspec" (property leaves it open)            *)
(*   stage "write" (the profile command) | "run"                           *)
(*   given for every documented name in the options section or explicit:   *)
(*         the value the run must use ("unspec": any value of that type)   *)
(***************************************************************************)
EXTENDS ParamsCases, Json, IOUtils, SequencesExt

CaseSeq == SetToSeq(AllCases)
Header == [k |-> "header", types |-> ParamType, defaults |-> Default, unknown |-> SetToSeq(Unknown),
           ncases |-> Len(CaseSeq)]
Emit(i) ==
    LET c == CaseSeq[i]
        s == Sem(c)
        E == ExpectedS(c, s)
    IN [k |-> "case", id |-> i, c |-> c, st |-> E.st, stage |-> E.stage,
        given |-> SetToSeq({[name |-> n, v |-> E.vals[n], doc |-> ParamType[n]] : n \in s.X \cup s.O}),
        unknown |-> s.unknown # {}]
ASSUME ndJsonSerialize(IOEnv.OUT_FILE, <<Header>> \o [i \in 1..Len(CaseSeq) |-> Emit(i)])
ASSUME PrintT(<<"V", "CASES", Len(CaseSeq)>>)

(* nothing to explore: one state *)
GenSpec == Init /\ [][UNCHANGED vars]_vars
=============================================================================
