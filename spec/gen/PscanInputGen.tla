---------------------------- MODULE PscanInputGen ----------------------------
(***************************************************************************)
(* Binding (A): emits the gene and every table of MC_PscanInput as ndjson  *)
(* (IOEnv.OUT_FILE).  Line 1: the gene; then one line per table            *)
(*   [id, kind, rows, pair]  kind = "single" | "pair" | "plan",            *)
(*                           pair = names of the diplotype the table       *)
(*                           carries (CarriesPair), <<>> when none.        *)
(* IOEnv.GEN_MODE = "quick": all tables over U2 (1 and 2 rows), all plans, *)
(* plus every K-th single-row table over U1 (K = IOEnv.GEN_K, offset       *)
(* IOEnv.GEN_S); "full": every single-row table over U1 as well.           *)
(***************************************************************************)
EXTENDS MC_PscanInput, Json, IOUtils

AllAlts == UNION {AltOf[rf] : rf \in Strs}
U1 == {Rec("20", x[1], x[2], x[3], x[4]) :
         x \in {y \in (1..4) \X Strs \X AllAlts \X GTs : y[3] \in AltOf[y[2]]}}
      \cup {Rec(x[1][1], x[1][2], x[2], <<x[3]>>, x[4]) :
         x \in {y \in Elsewhere \X Strs \X Strs \X GTs : y[2] # y[3]}}
ASSUME U2 \subseteq U1

StrToNat(s) == CHOOSE n \in 0..100000 : ToString(n) = s
K == IF IOEnv.GEN_MODE = "full" THEN 1 ELSE StrToNat(IOEnv.GEN_K)
S == IF IOEnv.GEN_MODE = "full" THEN 0 ELSE StrToNat(IOEnv.GEN_S)

U1Seq == SetToSeq(U1)
Singles == {<<U1Seq[i]>> : i \in {j \in DOMAIN U1Seq : j % K = S % K}} \cup {<<r>> : r \in U2}
Pairs == {<<a, b>> : a, b \in U2}
Tables == SetToSeq({<<>>} \cup Singles \cup Pairs \cup Plans)

KindOf(f) == IF f \in Plans THEN "plan" ELSE IF Len(f) = 2 THEN "pair" ELSE "single"
PairOf(f) ==
    LET D == DOMAIN MCGene.alleles
        E == Eff(MCGene, f)
        P == {x \in D \X D : x[1] <= x[2] /\ CarriesPairE(MCGene, E, MCGene.alleles[x[1]], MCGene.alleles[x[2]])}
    IN  IF P = {} \/ \E i \in DOMAIN f : FreeRow(MCGene, f[i]) THEN <<>>
        ELSE LET x == CHOOSE y \in P : TRUE IN <<MCGene.alleles[x[1]].name, MCGene.alleles[x[2]].name>>

GeneLine == [k |-> "gene", window |-> Window, lo |-> 0, chr |-> MCGene.chr,
             spans |-> MCGene.spans,
             cat |-> SetToSeq(MCGene.cat),
             alleles |-> [i \in DOMAIN MCGene.alleles |->
                            [name |-> MCGene.alleles[i].name, vs |-> SetToSeq(MCGene.alleles[i].vs)]]]
Lines == <<GeneLine>> \o [i \in DOMAIN Tables |->
            [k |-> "table", id |-> i, kind |-> KindOf(Tables[i]), rows |-> Tables[i], pair |-> PairOf(Tables[i])]]

ASSUME ndJsonSerialize(IOEnv.OUT_FILE, Lines)
ASSUME PrintT(<<"V", "TABLES", Len(Tables), Cardinality(U1), Cardinality(U2), Cardinality(Plans)>>)

GenSpec == MCInit /\ [][UNCHANGED vars]_vars
=============================================================================
