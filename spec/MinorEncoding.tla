---------------------------- MODULE MinorEncoding ----------------------------
(***************************************************************************)
(* ENCODING LAYER of the minor star-allele model (minor.py:142-474): the    *)
(* constraints the code documents over explicit binaries.                   *)
(*   slot <<m, i>>     copy i (0 <= i < copies of its major allele in the   *)
(*                     call) of minor allele m;  A[slot] in {0,1}           *)
(*   K[slot] \subseteq Def(m)        "keep" selectors of the definition      *)
(*   N[slot] \subseteq NewVars(m)    "add" selectors of the other            *)
(*                                   considered variants                     *)
(* A point is a sequence (aligned with SlotSeq) of records [va, K, N].      *)
(* Eliminated auxiliaries: the products MUL_K = A*K, MUL_N = A*N are         *)
(* functions of the selectors; the error terms are forced by the CCOV        *)
(* equations; VNEWOR is forced to the OR; the phase selectors PH and their   *)
(* products are minimised out per fragment pattern.  The tie-breaking        *)
(* epsilon on additions is not part of the objective (see MinorModel).       *)
(* Rules (each guarded by On(K); `Drop' switches rules off):                 *)
(*   CORD  A[m,i] <= A[m,i-1]                       (symmetry breaking)      *)
(*   CCNT_LE / CCNT_GE  copies of a major = its count;  CCNT_OTHER total     *)
(*   CVK / CVN   (rule 1) selectors only on selected slots                   *)
(*   CFUNC       (rule 2) core variants of the major allele are kept         *)
(*   CZERO       (rule 3) nothing kept where the allele has no gene copies   *)
(*   NEWCOV      add selectors exist only where the allele has gene copies   *)
(*   CONE / CSINGLE / CSINGLEFULL  (rule 4) one variant per site per copy    *)
(*   CNOCOV / CMAXCOV / CMINONE    (rule 5) carriers vs read support         *)
(*   REF_NOCOV / REF_MAXCOV        (rule 6) empty variant slots at a site    *)
(*   PHASE_SEL / PHASE_GE / PHASE_LE (rule 7) every fragment pattern is      *)
(*               attributed to exactly one selected eligible slot            *)
(*   CCOV_VAR / CCOV_REF  the equations that force the error terms           *)
(*   O_MISS / O_ADD / VNEWOR / O_PHASE  objective terms                      *)
(***************************************************************************)
EXTENDS MinorModel
CONSTANT Drop
Rules == {"CORD", "CCNT_LE", "CCNT_GE", "CCNT_OTHER", "CVK", "CVN", "CFUNC", "CZERO", "NEWCOV", "CONE", "CSINGLE",
          "CSINGLEFULL", "CNOCOV", "CMAXCOV", "CMINONE", "REF_NOCOV", "REF_MAXCOV", "PHASE_SEL", "PHASE_GE",
          "PHASE_LE", "CCOV_VAR", "CCOV_REF", "O_MISS", "O_ADD", "VNEWOR", "O_PHASE"}
ASSUME Drop \subseteq Rules
On(K) == K \notin Drop
B(x) == IF x THEN 1 ELSE 0

(* ---- variables ------------------------------------------------------------------------- *)
CallCount(c, j) == Cardinality({q \in DOMAIN c.call : c.call[q] = j})
MajorOf(c, m) == c.minors[m].major
(* candidate minor alleles = the catalogued minors of the CALLED major alleles *)
CandMinors(c) == {m \in DOMAIN c.minors : MajorOf(c, m) \in SeqToSet(c.call)}
Slots(c) == UNION {{<<m, i>> : i \in 0..(CallCount(c, MajorOf(c, m)) - 1)} : m \in CandMinors(c)}
SlotSeq(c) == SetToSeq(Slots(c))
At(c, v) == c.vars[v].si
NewVars(c, m) ==
    {v \in DOMAIN c.vars : v \notin Def(c, m) /\ (On("NEWCOV") => HasCov(c, MajorOf(c, m), At(c, v)))}
VarsAt(S, c, i) == {v \in S : At(c, v) = i}
NonIns(S, c) == {v \in S : ~c.vars[v].ins}

(* ---- constraints on the allele binaries -------------------------------------------------- *)
CORD(VA) == \A s \in VA : s[2] > 0 => <<s[1], s[2] - 1>> \in VA
MajSum(c, VA, j) == Cardinality({s \in VA : MajorOf(c, s[1]) = j})
AlleleRules(c, VA) ==
    /\ On("CORD") => CORD(VA)
    /\ On("CCNT_LE") => \A j \in SeqToSet(c.call) : MajSum(c, VA, j) <= CallCount(c, j)
    /\ On("CCNT_GE") => \A j \in SeqToSet(c.call) : MajSum(c, VA, j) >= CallCount(c, j)
    /\ On("CCNT_OTHER") => Cardinality(VA) <= NCopies(c)

(* ---- constraints local to one slot -------------------------------------------------------- *)
MulK(o) == IF o.va THEN o.K ELSE {}            \* the products A*K, A*N
MulN(o) == IF o.va THEN o.N ELSE {}
SlotRules(c, m, o) ==
    LET j == MajorOf(c, m)
        sites == DOMAIN c.sites
    IN
    /\ On("CVK") => (~o.va => o.K = {})
    /\ On("CVN") => (~o.va => o.N = {})
    /\ On("CFUNC") => (o.va => MajCore(c, j) \subseteq o.K)
    /\ On("CZERO") => \A v \in o.K : HasCov(c, j, At(c, v))
    /\ On("CONE") => \A i \in sites :
            (HasCov(c, j, i) /\ NonIns(VarsAt(Def(c, m), c, i), c) = {})
                => Cardinality(NonIns(VarsAt(o.N, c, i), c)) <= 1
    /\ On("CSINGLE") => \A i \in sites : Cardinality(VarsAt(MulN(o), c, i)) <= 1
    /\ On("CSINGLEFULL") => \A i \in sites : Cardinality(VarsAt(MulK(o), c, i)) + Cardinality(VarsAt(MulN(o), c, i)) <= 1
SlotOptions(c, m, va) ==
    {o \in [va : {va}, K : SUBSET Def(c, m), N : SUBSET NewVars(c, m)] : SlotRules(c, m, o)}

(* all sequences (aligned with ss) of slot options for the allele binaries VA *)
RECURSIVE Product(_, _, _, _)
Product(c, ss, VA, k) ==
    IF k > Len(ss) THEN {<<>>}
    ELSE {<<o>> \o rest : o \in SlotOptions(c, ss[k][1], ss[k] \in VA), rest \in Product(c, ss, VA, k + 1)}

(* ---- global constraints -------------------------------------------------------------------- *)
CarriersP(P, v) == Cardinality({k \in DOMAIN P : v \in MulK(P[k]) \cup MulN(P[k])})
Rule5(c, d, P) ==
    \A v \in DOMAIN c.vars :
        IF d.cn[At(c, v)] = 0 \/ d.cov[v] = 0
        THEN On("CNOCOV") => CarriersP(P, v) <= 0
        ELSE /\ On("CMAXCOV") => CarriersP(P, v) <= d.cov[v]
             /\ On("CMINONE") => CarriersP(P, v) >= 1
(* rule 6: number of variables of a site left empty over the selected slots that have gene copies there *)
SlotVarsAt(c, m, i) == VarsAt(Def(c, m) \cup NewVars(c, m), c, i)
Rule6(c, d, ss, P) ==
    \A i \in DOMAIN c.sites :
        LET cov == {k \in DOMAIN ss : HasCov(c, MajorOf(c, ss[k][1]), i)}
            expr == SumOver(cov, LAMBDA k : Cardinality(SlotVarsAt(c, ss[k][1], i)) * B(P[k].va)
                                           - Cardinality(VarsAt(MulK(P[k]) \cup MulN(P[k]), c, i)))
            maxm == MaxSet({0} \cup {Cardinality(SlotVarsAt(c, ss[k][1], i)) : k \in cov})
        IN (cov # {} /\ maxm > 0) =>
            IF d.cn[i] = 0 THEN On("REF_NOCOV") => expr <= 0
            ELSE On("REF_MAXCOV") => expr <= MaxSet({d.cn[i], d.rcov[i], maxm})

(* rule 7: for fragment pattern q the eligible slots, the admissible attributions T and their cost *)
PRelevant(c, m, p) == {v \in Def(c, m) \cup NewVars(c, m) : At(c, v) \in PatSites(p) /\ HasCov(c, MajorOf(c, m), At(c, v))}
PEligible(c, ss, p) == {k \in DOMAIN ss : Cardinality(PRelevant(c, ss[k][1], p)) >= 2}
PCost(c, m, o, p) ==        \* uses the SELECTORS, as the code does
    LET R == PRelevant(c, m, p)
        sel == o.K \cup o.N
    IN Cardinality({v \in R : Shown(p, At(c, v)) = v /\ v \notin sel})
       + Cardinality({v \in R : Shown(p, At(c, v)) # v /\ v \in sel})
PAttributions(c, ss, P, p) ==
    {T \in SUBSET PEligible(c, ss, p) :
        /\ On("PHASE_SEL") => \A k \in T : P[k].va
        /\ On("PHASE_GE") => Cardinality(T) >= 1
        /\ On("PHASE_LE") => Cardinality(T) <= 1}
PhaseFeasible(c, ss, P) ==
    \A q \in DOMAIN c.phases : PEligible(c, ss, c.phases[q]) # {} => PAttributions(c, ss, P, c.phases[q]) # {}
PhaseMin(c, ss, P) ==
    SumDom(c.phases, LAMBDA q :
        LET p == c.phases[q] IN
        IF PEligible(c, ss, p) = {} THEN 0
        ELSE p.cnt * MinSet({SumOver(T, LAMBDA k : PCost(c, ss[k][1], P[k], p)) : T \in PAttributions(c, ss, P, p)}))

GlobalRules(c, d, ss, P) == Rule5(c, d, P) /\ Rule6(c, d, ss, P) /\ PhaseFeasible(c, ss, P)

(* the feasible points *)
Points(c, d) ==
    LET ss == SlotSeq(c)
        vas == {VA \in SUBSET Slots(c) : AlleleRules(c, VA)}
    IN UNION {{P \in Product(c, ss, VA, 1) : GlobalRules(c, d, ss, P)} : VA \in vas}

(* ---- objective (minimum over the eliminated auxiliaries) ------------------------------------ *)
(* reference expression of a site: a selected slot with gene copies there counts as reference    *)
(* unless it keeps its definitional non-insertion variant / it adds a non-insertion variant       *)
RefExpr(c, ss, P, i) ==
    SumOver({k \in DOMAIN ss : HasCov(c, MajorOf(c, ss[k][1]), i)}, LAMBDA k :
        LET m == ss[k][1]
            present == NonIns(VarsAt(Def(c, m), c, i), c)
        IN IF present # {} THEN B(P[k].va) - Cardinality(MulK(P[k]) \cap present)
           ELSE B(P[k].va) - Cardinality(NonIns(VarsAt(MulN(P[k]), c, i), c)))
NewOr(c, ss, P) ==          \* novel core variants added somewhere (selectors)
    {v \in DOMAIN c.vars : c.vars[v].core /\ \E k \in DOMAIN ss : v \in P[k].N}
Objective(c, d, ss, P) ==
      (IF On("CCOV_VAR") THEN SumOver(DOMAIN c.vars, LAMBDA v : Abs(d.vobs[v] - U * CarriersP(P, v))) ELSE 0)
    + (IF On("CCOV_REF") THEN SumOver(DOMAIN c.sites, LAMBDA i : Abs(d.robs[i] - U * RefExpr(c, ss, P, i))) ELSE 0)
    + (IF On("O_MISS") THEN c.p.missPen * SumDom(ss, LAMBDA k : Cardinality(Def(c, ss[k][1])) * B(P[k].va) - Cardinality(MulK(P[k]))) ELSE 0)
    + (IF On("O_ADD") THEN c.p.addPen * SumDom(ss, LAMBDA k : Cardinality(P[k].N)) ELSE 0)
    + (IF On("VNEWOR") THEN (c.p.addPen \div 2) * Cardinality(NewOr(c, ss, P)) ELSE 0)
    + (IF On("O_PHASE") THEN c.p.phasePen * PhaseMin(c, ss, P) ELSE 0)

(* ---- projection onto the semantic objects: the multiset of [minor, carry] of the selected slots - *)
BagOfSeq(A) == {<<A[k], Cardinality({q \in DOMAIN A : A[q] = A[k]})>> : k \in DOMAIN A}
ProjPoint(c, ss, P) ==
    LET sel == {k \in DOMAIN ss : P[k].va}
        rec(k) == [minor |-> ss[k][1], carry |-> P[k].K \cup P[k].N]
    IN {<<rec(k), Cardinality({q \in sel : rec(q) = rec(k)})>> : k \in sel}
EncTable(c, d) == LET ss == SlotSeq(c) IN {<<ProjPoint(c, ss, P), Objective(c, d, ss, P)>> : P \in Points(c, d)}
SemTable(c, d) ==
    LET opts == TLCEval([j \in SeqToSet(c.call) |-> SetToSeq(CopyOptions(c, d, j))])
    IN {<<BagOfSeq(X), Score(c, d, X)>> : X \in {Y \in AssignFrom(c, opts, 1) : Admissible(c, d, Y)}}
MinTable(T) == {t \in T : \A u \in T : u[1] = t[1] => u[2] >= t[2]}

(* THEOREM (TLC, Drop = {}): projection of the feasible set = admissible assignments, objective = Score *)
EncodingRefinesSemantics(c) == LET d == Derive(c) IN MinTable(EncTable(c, d)) = SemTable(c, d)

Best(T) == MinSet({t[2] : t \in T})
=============================================================================
