------------------------------- MODULE Params -------------------------------
(***************************************************************************)
(* C18 - model parameters take the values the user gave, through every     *)
(* route (aldy/profile.py Profile.__init__/update/load/get_sam_profile_data*)
(* aldy/__main__.py --param, aldy/genotype.py).                            *)
(*                                                                         *)
(* Numbers.  TLC has no reals and no access to the characters of a string. *)
(*   - A VALUE is a tagged record [t, n, d, b, s]: t in {"bool","int",     *)
(*     "float","str"}; an int is n; a float is the reduced fraction n/d    *)
(*     (d > 0); a bool is b; a string is the tuple s of its characters.    *)
(*     Two extra tags are verdicts of Parse: "reject" (malformed: the      *)
(*     property demands an error) and "unspec" (the property text does not *)
(*     determine the outcome: error or ANY value of the documented type).  *)
(*   - A SPELLING is what the user wrote: [k, n, d, b, cs] with k = "str"  *)
(*     (text cs, a tuple of one-character strings - every command-line     *)
(*     value is one), "int", "float" (n/d), "bool" (native values given    *)
(*     through the programming interface or a YAML options section).       *)
(*   - Text is parsed HERE, character by character (sign, digits, ".",     *)
(*     exponent; letter case), so Parse is a definition, not a table.      *)
(*   The harness projects a Python float x to the fraction of repr(x)      *)
(*   (repr is the shortest text that reads back to x, so this names the    *)
(*   double exactly for the short decimals used).                          *)
(*                                                                         *)
(* Layers.  Semantic layer: Parse, Expected(case) - the oracle used by the *)
(* case emitter (gen/ParamsGen) and by trace validation (trace/ParamsTrace)*)
(* Operational layer: the actions SetCLI, SetAPI, LoadOptions,             *)
(* WriteProfile, UpdateStep, EndWrite, LoadProfile, EndRun written like    *)
(* the code (token split at the first "=", "-" -> "_", dictionary merge,   *)
(* one update() iteration per step, options written from update()'s return *)
(* value, re-parsed on load).  mc/MC_Params relates the two.               *)
(***************************************************************************)
EXTENDS Integers, Sequences, FiniteSets, TLC

(* ------------------------------------------------------------------------ *)
(* Values and spellings                                                     *)
Val(t, n, d, b, s) == [t |-> t, n |-> n, d |-> d, b |-> b, s |-> s]
Abs(x) == IF x < 0 THEN -x ELSE x
RECURSIVE GCD(_, _)
GCD(a, b) == IF b = 0 THEN a ELSE GCD(b, a % b)
VBool(b)     == Val("bool", 0, 1, b, <<>>)
VInt(i)      == Val("int", i, 1, FALSE, <<>>)
VFloat(n, d) == LET g == GCD(Abs(n), d) IN Val("float", n \div g, d \div g, FALSE, <<>>)
VStr(cs)     == Val("str", 0, 1, FALSE, cs)
VReject      == Val("reject", 0, 1, FALSE, <<>>)
VUnspec      == Val("unspec", 0, 1, FALSE, <<>>)
Types        == {"bool", "int", "float", "str"}

Sp(k, n, d, b, cs) == [k |-> k, n |-> n, d |-> d, b |-> b, cs |-> cs]
SStr(cs)      == Sp("str", 0, 1, FALSE, cs)
SInt(i)       == Sp("int", i, 1, FALSE, <<>>)
SFloat(n, d)  == Sp("float", n, d, FALSE, <<>>)
SBool(b)      == Sp("bool", 0, 1, b, <<>>)
SNone         == Sp("none", 0, 1, FALSE, <<>>)      \* placeholder inside a command-line argument
SAny          == Sp("any", 0, 1, FALSE, <<>>)       \* "some value of the documented type" (written after an unspec accept)

(* ------------------------------------------------------------------------ *)
(* The documented parameters: attributes of aldy.profile.Profile that carry *)
(* a docstring, with the type of the documented default.  The harness       *)
(* cross-checks names and default values against the real class (a new or   *)
(* renamed parameter is a machinery failure "specification stale").         *)
(* Not modelled: cn_solution (a list with its own --cn flag and keyword),   *)
(* neutral_value (profile data: the "neutral: value:" entry of the file).   *)
ParamType == [
    gap                  |-> "float",
    threshold            |-> "float",
    min_coverage         |-> "float",
    min_quality          |-> "int",
    min_mapq             |-> "int",
    phase                |-> "bool",
    sam_long_reads       |-> "bool",
    sam_mappy_preset     |-> "str",
    cn_max               |-> "int",
    cn_pce_penalty       |-> "float",
    cn_diff              |-> "float",
    cn_fit               |-> "float",
    cn_parsimony         |-> "float",
    cn_fusion_left       |-> "float",
    cn_fusion_right      |-> "float",
    major_novel          |-> "float",
    minor_miss           |-> "float",
    minor_add            |-> "float",
    minor_phase          |-> "float",
    minor_phase_vars     |-> "int",
    male                 |-> "bool",
    max_minor_solutions  |-> "int",
    display_format       |-> "bool",
    debug_probe          |-> "str",
    debug_novel          |-> "bool",
    min_avg_coverage     |-> "float",
    vcf_sample_idx       |-> "int",
    indelpost            |-> "bool"
]
Param == DOMAIN ParamType

Default == [
    gap                  |-> VFloat(0, 1),
    threshold            |-> VFloat(1, 2),
    min_coverage         |-> VFloat(2, 1),
    min_quality          |-> VInt(10),
    min_mapq             |-> VInt(10),
    phase                |-> VBool(TRUE),
    sam_long_reads       |-> VBool(FALSE),
    sam_mappy_preset     |-> VStr(<<"m", "a", "p", "-", "h", "i", "f", "i">>),
    cn_max               |-> VInt(20),
    cn_pce_penalty       |-> VFloat(2, 1),
    cn_diff              |-> VFloat(10, 1),
    cn_fit               |-> VFloat(1, 1),
    cn_parsimony         |-> VFloat(1, 2),
    cn_fusion_left       |-> VFloat(1, 2),
    cn_fusion_right      |-> VFloat(1, 4),
    major_novel          |-> VFloat(21, 1),
    minor_miss           |-> VFloat(3, 2),
    minor_add            |-> VFloat(1, 1),
    minor_phase          |-> VFloat(2, 5),
    minor_phase_vars     |-> VInt(3000),
    male                 |-> VBool(FALSE),
    max_minor_solutions  |-> VInt(1),
    display_format       |-> VBool(FALSE),
    debug_probe          |-> VStr(<<>>),
    debug_novel          |-> VBool(FALSE),
    min_avg_coverage     |-> VFloat(2, 1),
    vcf_sample_idx       |-> VInt(0),
    indelpost            |-> VBool(TRUE)
]

(* ------------------------------------------------------------------------ *)
(* Text                                                                     *)
Digit == ("0" :> 0) @@ ("1" :> 1) @@ ("2" :> 2) @@ ("3" :> 3) @@ ("4" :> 4) @@
         ("5" :> 5) @@ ("6" :> 6) @@ ("7" :> 7) @@ ("8" :> 8) @@ ("9" :> 9)
UpperCs == <<"A","B","C","D","E","F","G","H","I","J","K","L","M","N","O","P","Q","R","S","T","U","V","W","X","Y","Z">>
LowerCs == <<"a","b","c","d","e","f","g","h","i","j","k","l","m","n","o","p","q","r","s","t","u","v","w","x","y","z">>
Lower(c) == IF \E i \in DOMAIN UpperCs : UpperCs[i] = c
            THEN LowerCs[CHOOSE i \in DOMAIN UpperCs : UpperCs[i] = c] ELSE c
LowerAll(cs) == [i \in DOMAIN cs |-> Lower(cs[i])]

RECURSIVE Str(_)        \* tuple of characters -> string (TLC concatenates strings with \o)
Str(cs) == IF cs = <<>> THEN "" ELSE Str(SubSeq(cs, 1, Len(cs) - 1)) \o cs[Len(cs)]

(* index of the first character of cs that is in C, 0 if none *)
IndexOf(cs, C) ==
    IF \E i \in DOMAIN cs : cs[i] \in C
    THEN CHOOSE i \in DOMAIN cs : cs[i] \in C /\ \A j \in 1..(i - 1) : cs[j] \notin C
    ELSE 0
IsDigits(cs) == cs # <<>> /\ \A i \in DOMAIN cs : cs[i] \in DOMAIN Digit
RECURSIVE Nat10(_)
Nat10(cs) == IF cs = <<>> THEN 0 ELSE 10 * Nat10(SubSeq(cs, 1, Len(cs) - 1)) + Digit[cs[Len(cs)]]
RECURSIVE Pow10(_)
Pow10(k) == IF k = 0 THEN 1 ELSE 10 * Pow10(k - 1)
HasSign(cs) == cs # <<>> /\ cs[1] \in {"+", "-"}
Sign(cs)    == IF cs # <<>> /\ cs[1] = "-" THEN -1 ELSE 1
Body(cs)    == IF HasSign(cs) THEN Tail(cs) ELSE cs

(* integer text:  [+-]? digit+ *)
IsIntText(cs) == IsDigits(Body(cs))
IntOf(cs)     == Sign(cs) * Nat10(Body(cs))

(* decimal text:  [+-]? digit+ ( "." digit+ )? ( [eE] [+-]? digit+ )? *)
DecParts(cs) ==
    LET ei == IndexOf(cs, {"e", "E"})
        m  == IF ei = 0 THEN cs ELSE SubSeq(cs, 1, ei - 1)
        x  == IF ei = 0 THEN <<>> ELSE SubSeq(cs, ei + 1, Len(cs))
        mb == Body(m)
        di == IndexOf(mb, {"."})
        ip == IF di = 0 THEN mb ELSE SubSeq(mb, 1, di - 1)
        fp == IF di = 0 THEN <<>> ELSE SubSeq(mb, di + 1, Len(mb))
        ok == IsDigits(ip) /\ (di = 0 \/ IsDigits(fp)) /\ (ei = 0 \/ IsIntText(x))
    IN [ok |-> ok, sign |-> Sign(m), ip |-> ip, fp |-> fp,
        ex |-> IF ok /\ ei # 0 THEN IntOf(x) ELSE 0]
IsDecText(cs) == DecParts(cs).ok
DecOf(cs) ==
    LET p   == DecParts(cs)
        num == p.sign * Nat10(p.ip \o p.fp)
        den == Pow10(Len(p.fp))
    IN IF p.ex >= 0 THEN VFloat(num * Pow10(p.ex), den) ELSE VFloat(num, den * Pow10(-p.ex))

(* ------------------------------------------------------------------------ *)
(* Parse(type, spelling): the documented meaning, "reject" or "unspec".     *)
(* The property: "booleans accept true/false in any letter case, 1/0 and    *)
(* real booleans; numbers are parsed as numbers; ... malformed values are   *)
(* rejected with an error".  Where that text does not decide (a fraction or *)
(* a decimal text for an int parameter, a boolean for a number, yes/no/on/  *)
(* off, a float for a boolean, a non-string for a string parameter) the     *)
(* verdict is "unspec": both an error and any value OF THE DOCUMENTED TYPE  *)
(* are allowed.                                                             *)
BoolWordsUnspec == {<<"y","e","s">>, <<"n","o">>, <<"o","n">>, <<"o","f","f">>,
                    <<"y">>, <<"n">>, <<"t">>, <<"f">>}
ParseBool(sp) ==
    CASE sp.k = "bool"  -> VBool(sp.b)
      [] sp.k = "int"   -> IF sp.n = 1 THEN VBool(TRUE) ELSE IF sp.n = 0 THEN VBool(FALSE) ELSE VReject
      [] sp.k = "str"   -> LET l == LowerAll(sp.cs) IN
                           IF l = <<"t","r","u","e">> \/ l = <<"1">> THEN VBool(TRUE)
                           ELSE IF l = <<"f","a","l","s","e">> \/ l = <<"0">> THEN VBool(FALSE)
                           ELSE IF l \in BoolWordsUnspec THEN VUnspec
                           ELSE VReject
      [] OTHER          -> VUnspec
ParseInt(sp) ==
    CASE sp.k = "int"   -> VInt(sp.n)
      [] sp.k = "str"   -> IF IsIntText(sp.cs) THEN VInt(IntOf(sp.cs))
                           ELSE IF IsDecText(sp.cs) THEN VUnspec      \* "3.5", "3.0", "1e2" for an int
                           ELSE VReject
      [] OTHER          -> VUnspec                                    \* 3.5, 3.0, True for an int
ParseFloat(sp) ==
    CASE sp.k = "float" -> VFloat(sp.n, sp.d)
      [] sp.k = "int"   -> VFloat(sp.n, 1)
      [] sp.k = "str"   -> IF IsDecText(sp.cs) THEN DecOf(sp.cs) ELSE VReject
      [] OTHER          -> VUnspec
ParseStr(sp) ==
    CASE sp.k = "str"   -> VStr(sp.cs)
      [] OTHER          -> VUnspec
Parse(t, sp) ==
    CASE t = "bool"  -> ParseBool(sp)
      [] t = "int"   -> ParseInt(sp)
      [] t = "float" -> ParseFloat(sp)
      [] t = "str"   -> ParseStr(sp)

(* how a typed value is written into a YAML options section (native YAML scalar) *)
Native(v) ==
    CASE v.t = "bool"  -> SBool(v.b)
      [] v.t = "int"   -> SInt(v.n)
      [] v.t = "float" -> SFloat(v.n, v.d)
      [] v.t = "str"   -> SStr(v.s)
      [] OTHER         -> SAny

(* ------------------------------------------------------------------------ *)
(* Arguments.  A command-line argument is the token after --param (tuple of *)
(* characters); an interface / options argument is (name, spelling).        *)
Arg(tok, name, sp) == [tok |-> tok, name |-> name, sp |-> sp]
CArg(tok)      == Arg(tok, "", SNone)
AArg(name, sp) == Arg(<<>>, name, sp)
IsCli(a)       == a.sp.k = "none"
Norm(cs)       == [i \in DOMAIN cs |-> IF cs[i] = "-" THEN "_" ELSE cs[i]]
(* k, v = p.split("=", 1); params[k.replace("-", "_")] = v ;  no "=" -> error *)
Resolve(a) ==
    IF IsCli(a)
    THEN LET i == IndexOf(a.tok, {"="}) IN
         IF i = 0 THEN [ok |-> FALSE, name |-> "", sp |-> SNone]
         ELSE [ok |-> TRUE, name |-> Str(Norm(SubSeq(a.tok, 1, i - 1))),
               sp |-> SStr(SubSeq(a.tok, i + 1, Len(a.tok)))]
    ELSE [ok |-> TRUE, name |-> a.name, sp |-> a.sp]
Bad(args)      == \E i \in DOMAIN args : ~Resolve(args[i]).ok
Names(args)    == {Resolve(args[i]).name : i \in {j \in DOMAIN args : Resolve(args[j]).ok}}
SpOf(args, n)  == Resolve(args[CHOOSE i \in DOMAIN args : Resolve(args[i]).ok /\ Resolve(args[i]).name = n]).sp
KwOf(args)     == [n \in Names(args) |-> SpOf(args, n)]
UniqueNames(args) == \A i, j \in DOMAIN args :
    (i # j /\ Resolve(args[i]).ok /\ Resolve(args[j]).ok) => Resolve(args[i]).name # Resolve(args[j]).name

(* ------------------------------------------------------------------------ *)
(* A case = a short route history:                                          *)
(*   wmode/w : the profile command ("cli": aldy profile --param ..., "api":  *)
(*             get_sam_profile_data(params=...)) and its parameters, or     *)
(*             "none";                                                      *)
(*   opts    : a hand-written options section of the profile file (only if  *)
(*             wmode = "none");                                             *)
(*   route/ex: the explicit parameters of the run ("cli": --param tokens,   *)
(*             "api": keywords of genotype()/Profile()/Profile.load()).     *)
Case(wmode, w, opts, route, ex) == [wmode |-> wmode, w |-> w, opts |-> opts, route |-> route, ex |-> ex]
EmptyCase == Case("none", <<>>, <<>>, "none", <<>>)

(* ---- semantic layer ---------------------------------------------------- *)
(* Sem(c): everything the property says about a case, computed once.        *)
(*   W, O, X : documented names written / in the options section / explicit *)
(*   pw, po, px : their documented meanings (Parse)                         *)
(*   eff     : the valuation the run must use                               *)
Sem(c) ==
    LET kww  == KwOf(c.w)
        kwo  == KwOf(c.opts)
        kwx  == KwOf(c.ex)
        Wn   == DOMAIN kww \cap Param
        On   == IF c.wmode = "none" THEN DOMAIN kwo \cap Param ELSE Wn
        Xn   == DOMAIN kwx \cap Param
        pwf  == [n \in Wn |-> Parse(ParamType[n], kww[n])]
        pof  == [n \in On |-> IF c.wmode = "none" THEN Parse(ParamType[n], kwo[n])
                                                  ELSE pwf[n]]            \* RoundTrip: the loaded value IS the written value
        pxf  == [n \in Xn |-> Parse(ParamType[n], kwx[n])]
    IN [W |-> Wn, O |-> On, X |-> Xn, pw |-> pwf, po |-> pof, px |-> pxf,
        badw |-> Bad(c.w), badx |-> Bad(c.ex),
        unknown |-> (DOMAIN kww \cup DOMAIN kwo \cup DOMAIN kwx) \ Param,
        eff |-> [n \in Param |-> IF n \in Xn THEN pxf[n]                  \* ExplicitOverridesOptions
                                 ELSE IF n \in On THEN pof[n]
                                 ELSE Default[n]]]                        \* UnknownIgnored / untouched
ExpectedS(c, s) ==
    LET wrej == c.wmode # "none" /\ (s.badw \/ \E n \in s.W : s.pw[n].t = "reject")
        wuns == c.wmode # "none" /\ \E n \in s.W : s.pw[n].t = "unspec"
        rrej == s.badx \/ \E n \in s.X \cup s.O : s.eff[n].t = "reject"
        runs == \/ \E n \in s.X \cup s.O : s.eff[n].t = "unspec"
                \/ \E n \in s.X \cap s.O : s.po[n].t \notin Types       \* overridden malformed option: not decided
    IN [st    |-> IF wrej THEN "reject" ELSE IF wuns THEN "unspec"
                  ELSE IF rrej THEN "reject" ELSE IF runs THEN "unspec" ELSE "ok",
        stage |-> IF wrej \/ wuns THEN "write" ELSE "run",
        vals  |-> s.eff]
Expected(c) == ExpectedS(c, Sem(c))

(* ------------------------------------------------------------------------ *)
(* Operational layer                                                        *)
VARIABLES
    hist,      \* the case built so far (route history)
    mode,      \* "compose" | "wupdate" | "rupdate" | "done"
    kw,        \* the keyword dictionary update() is iterating over: name -> spelling
    todo,      \* names of kw not yet processed
    prof,      \* [Param -> value]: attributes of the Profile under construction
    touched,   \* names update() has set (its return value `params`)
    file,      \* [has, opts]: the profile file on disk and its options section (name -> native spelling)
    res,       \* "" | "ok" | "reject"
    uns        \* TRUE once a step took a branch the property leaves open
vars == <<hist, mode, kw, todo, prof, touched, file, res, uns>>

NoKw == [n \in {} |-> SNone]
Init ==
    /\ hist = EmptyCase /\ mode = "compose" /\ kw = NoKw /\ todo = {}
    /\ prof = Default /\ touched = {} /\ file = [has |-> FALSE, opts |-> NoKw]
    /\ res = "" /\ uns = FALSE

(* --param name=text *)
SetCLI(tok) ==
    /\ mode = "compose" /\ hist.route \in {"none", "cli"}
    /\ hist' = [hist EXCEPT !.route = "cli", !.ex = Append(@, CArg(tok))]
    /\ UNCHANGED <<mode, kw, todo, prof, touched, file, res, uns>>
(* keyword of genotype() / Profile() / Profile.load() / get_sam_profile_data(params=) *)
SetAPI(name, sp) ==
    /\ mode = "compose" /\ hist.route \in {"none", "api"}
    /\ hist' = [hist EXCEPT !.route = "api", !.ex = Append(@, AArg(name, sp))]
    /\ UNCHANGED <<mode, kw, todo, prof, touched, file, res, uns>>
(* the user writes a profile YAML whose options section is m (sequence of (name, native value)) *)
LoadOptions(m) ==
    /\ mode = "compose" /\ ~file.has /\ hist.wmode = "none" /\ hist.ex = <<>> /\ hist.opts = <<>>
    /\ hist' = [hist EXCEPT !.opts = m]
    /\ file' = [has |-> TRUE, opts |-> KwOf(m)]
    /\ UNCHANGED <<mode, kw, todo, prof, touched, res, uns>>
(* aldy profile --param ... / get_sam_profile_data(params=...):  Profile("").update(params) *)
WriteProfile(wm) ==
    /\ mode = "compose" /\ ~file.has /\ hist.wmode = "none" /\ hist.route \in {"none", wm}
    /\ hist' = [hist EXCEPT !.wmode = wm, !.w = hist.ex, !.ex = <<>>, !.route = "none"]
    /\ IF Bad(hist.ex)
       THEN /\ mode' = "done" /\ res' = "reject"
            /\ UNCHANGED <<kw, todo, prof, touched>>
       ELSE /\ kw' = KwOf(hist.ex) /\ todo' = Names(hist.ex)
            /\ prof' = Default /\ touched' = {} /\ mode' = "wupdate" /\ res' = res
    /\ UNCHANGED <<file, uns>>
(* one iteration of the loop in update() *)
UpdateStep(n) ==
    /\ mode \in {"wupdate", "rupdate"} /\ n \in todo
    /\ todo' = todo \ {n}
    /\ IF n \notin Param
       THEN UNCHANGED <<prof, touched, res, mode, uns>>                  \* unknown name: ignored
       ELSE LET v == Parse(ParamType[n], kw[n]) IN
            CASE v.t = "reject" ->
                    /\ mode' = "done" /\ res' = "reject" /\ UNCHANGED <<prof, touched, uns>>
              [] v.t = "unspec" ->
                    \/ /\ mode' = "done" /\ res' = "reject" /\ uns' = TRUE /\ UNCHANGED <<prof, touched>>
                    \/ /\ prof' = [prof EXCEPT ![n] = v] /\ touched' = touched \cup {n}
                       /\ uns' = TRUE /\ UNCHANGED <<mode, res>>
              [] OTHER ->
                    /\ prof' = [prof EXCEPT ![n] = v] /\ touched' = touched \cup {n}
                    /\ UNCHANGED <<mode, res, uns>>
    /\ UNCHANGED <<hist, kw, file>>
(* d["options"][k] = v for k, v in update(params).items(); yaml.dump *)
EndWrite ==
    /\ mode = "wupdate" /\ todo = {}
    /\ file' = [has |-> TRUE, opts |-> [n \in touched |-> Native(prof[n])]]
    /\ mode' = "compose" /\ prof' = Default /\ touched' = {} /\ kw' = NoKw
    /\ UNCHANGED <<hist, todo, res, uns>>
(* Profile(...)/Profile.load(...): dict(prof.get("options", {}), **params) then update() *)
Merge(o, x) == [n \in DOMAIN o \cup DOMAIN x |-> IF n \in DOMAIN x THEN x[n] ELSE o[n]]
LoadProfile ==
    /\ mode = "compose"
    /\ hist.wmode # "none" => file.has
    /\ IF Bad(hist.ex)
       THEN /\ mode' = "done" /\ res' = "reject" /\ UNCHANGED <<kw, todo, prof, touched>>
       ELSE /\ kw' = Merge(IF file.has THEN file.opts ELSE NoKw, KwOf(hist.ex))
            /\ todo' = DOMAIN kw'
            /\ prof' = Default /\ touched' = {} /\ mode' = "rupdate" /\ res' = res
    /\ UNCHANGED <<hist, file, uns>>
EndRun ==
    /\ mode = "rupdate" /\ todo = {}
    /\ mode' = "done" /\ res' = "ok"
    /\ UNCHANGED <<hist, kw, todo, prof, touched, file, uns>>

(* ------------------------------------------------------------------------ *)
(* The property, stated on the inputs recorded in hist (through Sem, not    *)
(* through Expected), plus the link between the two layers.                 *)
Done == mode = "done"
Is(v, e) == e.t = "unspec" \/ v = e

TakesGivenValueS(s) ==      \* explicit and options values arrive as their documented meaning
    (Done /\ res = "ok") =>
        /\ \A n \in s.X : Is(prof[n], s.px[n])
        /\ \A n \in s.O \ s.X : Is(prof[n], s.po[n])
TypedAsDocumented ==        \* at every step every attribute has its documented type
    \A n \in Param : prof[n].t \in {ParamType[n], "unspec"}
UnknownIgnoredS(s) ==       \* unknown names neither change an attribute nor cause the error
    /\ (Done /\ res = "ok") => \A n \in Param \ (s.X \cup s.O) : prof[n] = Default[n]
    /\ (Done /\ res = "reject") =>
          \/ s.badx \/ s.badw
          \/ \E n \in s.W : s.pw[n].t \notin Types
          \/ \E n \in s.X : s.px[n].t \notin Types
          \/ \E n \in s.O \ s.X : s.po[n].t \notin Types
    /\ DOMAIN prof = Param
MalformedRejectedS(s) ==
    Done =>
        (( \/ s.badx \/ s.badw
           \/ \E n \in s.W : s.pw[n].t = "reject"
           \/ \E n \in s.X : s.px[n].t = "reject"
           \/ \E n \in s.O \ s.X : s.po[n].t = "reject")
         => res = "reject")
RoundTripS(s) ==            \* written by the profile command, loaded again: same values
    (Done /\ res = "ok" /\ hist.wmode # "none") =>
        \A n \in s.W \ s.X : Is(prof[n], s.pw[n])
ExplicitOverridesOptionsS(s) ==
    (Done /\ res = "ok") => \A n \in s.X \cap s.O : Is(prof[n], s.px[n])
(* the oracle used for emission and trace validation agrees with the machine *)
MatchesExpectedS(s) ==
    Done => LET E == ExpectedS(hist, s) IN
        /\ E.st = "ok"     => (res = "ok" /\ prof = E.vals /\ ~uns)
        /\ E.st = "reject" => res = "reject"
        /\ E.st = "unspec" => (res = "ok" => prof = E.vals)

TakesGivenValue          == TakesGivenValueS(Sem(hist))
UnknownIgnored           == UnknownIgnoredS(Sem(hist))
MalformedRejected        == MalformedRejectedS(Sem(hist))
RoundTrip                == RoundTripS(Sem(hist))
ExplicitOverridesOptions == ExplicitOverridesOptionsS(Sem(hist))
MatchesExpected          == MatchesExpectedS(Sem(hist))
=============================================================================
