------------------------------- MODULE Coords -------------------------------
(***************************************************************************)
(* C08 - a catalogued variant denotes the same haplotype in every          *)
(* coordinate system.                                                      *)
(*                                                                         *)
(* A gene database writes variants on the RefSeq sequence (1-based         *)
(* position, HGVS-like operation).  The loader (aldy/gene.py _init_basic,  *)
(* process_mutation) builds RefSeq<->genome maps from an alignment string, *)
(* a genome-oriented lookup sequence, and converts every written variant   *)
(* into a LOADED variant (genome site, genome-strand alleles).  Consumers  *)
(* (aldy/sam.py _realign_indels, long-read matching) re-anchor indels.     *)
(*                                                                         *)
(* DNA letters are integers: 0=A 1=C 2=G 3=T (complement = 3-x), 4 = N     *)
(* (genome base not aligned to RefSeq), 5 = '.' (position of a multi-base  *)
(* substitution that is left unchanged).  All indexes are 1-based: RefSeq  *)
(* index r <-> written position r; genome index c <-> 0-based genome       *)
(* coordinate origin + c - 1.                                              *)
(*                                                                         *)
(* Semantic layer (the oracle): ApplyRef (HGVS meaning of a written        *)
(* variant), ApplyGenome (meaning of a loaded variant; insertion AFTER the *)
(* anchor base `site`), VcfMeaning, CigarMeaning.                          *)
(* Implementation layer: Walk/View (= _init_basic), Conv (= the strand     *)
(* conversion of process_mutation), RealignVariant and LongReadKey         *)
(* (= _realign_indels).                                                    *)
(* Property: Theorem, RefAlleleMatches, MapsMutuallyInverse,               *)
(* NotationRoundTrip, InsertionAnchorAgrees, InferSub.                     *)
(***************************************************************************)
EXTENDS Naturals, Integers, Sequences, FiniteSets

Base == 0..3
NN == 4
Dot == 5
Compl(b) == IF b \in Base THEN 3 - b ELSE b
Rev(s) == [i \in 1..Len(s) |-> s[Len(s) + 1 - i]]
RevComp(s) == [i \in 1..Len(s) |-> Compl(s[Len(s) + 1 - i])]
Orient(strand, s) == IF strand = 1 THEN s ELSE RevComp(s)
MinS(S) == CHOOSE x \in S : \A y \in S : x <= y
MaxS(S) == CHOOSE x \in S : \A y \in S : x >= y
\* SubSeq that is total (empty when the range is empty or outside)
Sub(s, a, b) == IF a > b \/ a < 1 \/ b > Len(s) THEN << >> ELSE SubSeq(s, a, b)

Kinds == {"sub", "msub", "ins", "del", "delins"}
Dropped == [site |-> 0, kind |-> "dropped", ref |-> << >>, alt |-> << >>]

(* ------------------------------------------------------------------------ *)
(* Implementation layer 1: maps and lookup sequence from the alignment      *)
(* string (genome order; on strand -1 the RefSeq index runs downwards).     *)
(* cig: sequence of <<op, n>>, op in {"M","I","D"}.                         *)
(* ------------------------------------------------------------------------ *)
RECURSIVE Walk(_, _, _, _, _, _)
Walk(cig, i, r, c, step, acc) ==
    IF i > Len(cig) THEN acc
    ELSE LET op == cig[i][1]
             n  == cig[i][2]
         IN CASE op = "M" -> Walk(cig, i + 1, r + step * n, c + n, step,
                                  acc \cup {<<r + step * k, c + k>> : k \in 0..(n - 1)})
              [] op = "I" -> Walk(cig, i + 1, r + step * n, c, step, acc)
              [] op = "D" -> Walk(cig, i + 1, r, c + n, step, acc)

RECURSIVE SpanOf(_, _)
SpanOf(cig, i) == IF i > Len(cig) THEN 0
                  ELSE (IF cig[i][1] \in {"M", "D"} THEN cig[i][2] ELSE 0) + SpanOf(cig, i + 1)

\* A "view" is what every other operator works on: RefSeq sequence, genome-oriented
\* sequence, the two maps as sequences (0 = unmapped) and the strand.
View(seq, strand, cig) ==
    LET P    == Walk(cig, 1, IF strand = 1 THEN 1 ELSE Len(seq), 1, strand, {})
        span == SpanOf(cig, 1)
        c2r  == [c \in 1..span |-> IF \E p \in P : p[2] = c THEN (CHOOSE p \in P : p[2] = c)[1] ELSE 0]
        r2c  == [r \in 1..Len(seq) |-> IF \E p \in P : p[1] = r THEN (CHOOSE p \in P : p[1] = r)[2] ELSE 0]
    IN [seq |-> seq, strand |-> strand, r2c |-> r2c, c2r |-> c2r,
        g |-> [c \in 1..span |-> IF c2r[c] = 0 THEN NN
                                 ELSE IF strand = 1 THEN seq[c2r[c]] ELSE Compl(seq[c2r[c]])]]

(* ------------------------------------------------------------------------ *)
(* Semantic layer: what a written / loaded variant MEANS.                   *)
(* ------------------------------------------------------------------------ *)
\* replace Len(ref) letters starting at index p by alt ('.' keeps the letter)
Replace(s, p, nref, alt) ==
    Sub(s, 1, p - 1)
    \o [i \in 1..Len(alt) |-> IF alt[i] = Dot THEN s[p + i - 1] ELSE alt[i]]
    \o Sub(s, p + nref, Len(s))

\* written variant w = [pos, kind, ref, alt] on sequence s (HGVS):
\*   X>Y replaces Len(X) letters at pos; delX removes them; insX inserts BETWEEN pos and
\*   pos+1; delXinsY replaces.
ApplyRef(s, w) ==
    CASE w.kind \in {"sub", "msub"} -> Replace(s, w.pos, Len(w.ref), w.alt)
      [] w.kind = "del"    -> Sub(s, 1, w.pos - 1) \o Sub(s, w.pos + Len(w.ref), Len(s))
      [] w.kind = "ins"    -> Sub(s, 1, w.pos) \o w.alt \o Sub(s, w.pos + 1, Len(s))
      [] w.kind = "delins" -> Sub(s, 1, w.pos - 1) \o w.alt \o Sub(s, w.pos + Len(w.ref), Len(s))

\* loaded variant v = [site, kind, ref, alt] on the genome-oriented sequence:
\*   an insertion is placed AFTER the anchor letter `site`; everything else starts AT `site`.
ApplyGenome(g, v) ==
    CASE v.kind \in {"sub", "msub"} -> Replace(g, v.site, Len(v.ref), v.alt)
      [] v.kind = "del"    -> Sub(g, 1, v.site - 1) \o Sub(g, v.site + Len(v.ref), Len(g))
      [] v.kind = "ins"    -> Sub(g, 1, v.site) \o v.alt \o Sub(g, v.site + 1, Len(g))
      [] v.kind = "delins" -> Sub(g, 1, v.site - 1) \o v.alt \o Sub(g, v.site + Len(v.ref), Len(g))

\* VCF-like variant [pos, ref, alt] (what indelpost receives): replace ref by alt at pos
VcfMeaning(g, rv) == Sub(g, 1, rv.pos - 1) \o rv.alt \o Sub(g, rv.pos + Len(rv.ref), Len(g))
\* a CIGAR insertion is reported AT the next reference letter `at` (inserted before it);
\* a CIGAR deletion at its first deleted letter
CigarMeaning(g, k) ==
    IF k.kind = "ins" THEN Sub(g, 1, k.at - 1) \o k.seq \o Sub(g, k.at, Len(g))
    ELSE Sub(g, 1, k.at - 1) \o Sub(g, k.at + Len(k.seq), Len(g))

\* written reference allele agrees with the sequence
AlleleAt(s, p, ref) == /\ p >= 1 /\ p + Len(ref) - 1 <= Len(s)
                       /\ \A i \in 1..Len(ref) : ref[i] = Dot \/ ref[i] = s[p + i - 1]
RefAlleleMatches(vw, w) == w.kind = "ins" \/ AlleleAt(vw.seq, w.pos, w.ref)
GenomeAlleleMatches(vw, v) == v.kind = "ins" \/ AlleleAt(vw.g, v.site, v.ref)

WellFormedW(s, w) ==
    /\ w.kind \in Kinds /\ w.pos \in 1..Len(s)
    /\ CASE w.kind = "sub"    -> Len(w.ref) = 1 /\ Len(w.alt) = 1
         [] w.kind = "msub"   -> Len(w.ref) >= 2 /\ Len(w.alt) = Len(w.ref)
         [] w.kind = "del"    -> Len(w.ref) >= 1 /\ Len(w.alt) = 0
         [] w.kind = "ins"    -> Len(w.ref) = 0 /\ Len(w.alt) >= 1 /\ w.pos + 1 <= Len(s)
         [] w.kind = "delins" -> Len(w.ref) >= 1 /\ Len(w.alt) >= 1
    /\ w.pos + Len(w.ref) - 1 <= Len(s)

(* ------------------------------------------------------------------------ *)
(* Implementation layer 2: conversion of a written variant (process_mutation)*)
(* ------------------------------------------------------------------------ *)
\* RefSeq index of the letter whose genome image becomes the loaded site
AnchorRef(strand, w) ==
    IF strand = 1 THEN w.pos
    ELSE IF w.kind = "ins" THEN w.pos + 1 ELSE w.pos + Len(w.ref) - 1

Conv(vw, w) ==
    LET a == AnchorRef(vw.strand, w) IN
    IF a \notin 1..Len(vw.seq) \/ vw.r2c[a] = 0 THEN Dropped
    ELSE [site |-> vw.r2c[a], kind |-> w.kind,
          ref |-> Orient(vw.strand, w.ref), alt |-> Orient(vw.strand, w.alt)]

\* inverse conversion (display: get_refseq): the written notation of a loaded variant
Unconv(vw, v) ==
    LET r == vw.c2r[v.site] IN
    [pos |-> IF vw.strand = 1 THEN r
             ELSE IF v.kind = "ins" THEN r - 1 ELSE r - Len(v.ref) + 1,
     kind |-> v.kind, ref |-> Orient(vw.strand, v.ref), alt |-> Orient(vw.strand, v.alt)]

(* ------------------------------------------------------------------------ *)
(* The theorem.  With alignment gaps the genome-oriented sequence is not    *)
(* the RefSeq sequence, so the comparison is made on the maximal gap-free   *)
(* block around the variant's footprint (variant letters plus one flanking  *)
(* letter on each side).  A footprint that touches a gap has no block.      *)
(* ------------------------------------------------------------------------ *)
Footprint(s, w) ==
    (IF w.kind = "ins" THEN w.pos..(w.pos + 1) ELSE (w.pos - 1)..(w.pos + Len(w.ref))) \cap 1..Len(s)
Contig(vw, a, b) ==
    \A k \in a..b : vw.r2c[k] # 0 /\ (k < b => vw.r2c[k + 1] - vw.r2c[k] = vw.strand)
HasBlock(vw, w) == LET F == Footprint(vw.seq, w) IN Contig(vw, MinS(F), MaxS(F))
Block(vw, w) ==
    LET F  == Footprint(vw.seq, w)
        lo == MinS(F)
        hi == MaxS(F)
        a  == MinS({x \in 1..lo : Contig(vw, x, hi)})
        b  == MaxS({x \in hi..Len(vw.seq) : Contig(vw, a, x)})
    IN <<a, b>>

InBlock(G, v) == /\ v.site >= 1 /\ v.site <= Len(G)
                 /\ v.site + (IF v.kind = "ins" THEN 0 ELSE Len(v.ref) - 1) <= Len(G)

Theorem(vw, w, v) ==
    LET blk == Block(vw, w)
        a   == blk[1]
        b   == blk[2]
        glo == MinS({vw.r2c[a], vw.r2c[b]})
        ghi == MaxS({vw.r2c[a], vw.r2c[b]})
        R   == SubSeq(vw.seq, a, b)
        G   == SubSeq(vw.g, glo, ghi)
        wR  == [w EXCEPT !.pos = w.pos - a + 1]
        vG  == [v EXCEPT !.site = v.site - glo + 1]
    IN /\ v.kind = w.kind
       /\ InBlock(G, vG)
       /\ Orient(vw.strand, ApplyGenome(G, vG)) = ApplyRef(R, wR)

(* maps: mutually inverse on their domains and monotone in strand direction *)
MapsMutuallyInverse(vw) ==
    /\ \A r \in 1..Len(vw.r2c) : vw.r2c[r] # 0 =>
            vw.r2c[r] \in 1..Len(vw.c2r) /\ vw.c2r[vw.r2c[r]] = r
    /\ \A c \in 1..Len(vw.c2r) : vw.c2r[c] # 0 =>
            vw.c2r[c] \in 1..Len(vw.r2c) /\ vw.r2c[vw.c2r[c]] = c
    /\ \A c, d \in 1..Len(vw.c2r) :
            (c < d /\ vw.c2r[c] # 0 /\ vw.c2r[d] # 0) => (vw.c2r[d] - vw.c2r[c]) * vw.strand > 0
\* the lookup sequence is the oriented RefSeq letter wherever aligned, N elsewhere
LookupAgrees(vw) ==
    \A c \in 1..Len(vw.g) :
        vw.g[c] = IF vw.c2r[c] = 0 THEN NN
                  ELSE IF vw.strand = 1 THEN vw.seq[vw.c2r[c]] ELSE Compl(vw.seq[vw.c2r[c]])

NotationRoundTrip(vw, w, v) == Unconv(vw, v) = w

(* ------------------------------------------------------------------------ *)
(* Consumers of indels (aldy/sam.py _realign_indels).                       *)
(* ------------------------------------------------------------------------ *)
\* the Variant(pos, ref, alt) handed to indelpost: pos is the 1-based coordinate of
\* the first letter of ref
RealignVariant(vw, v) ==
    CASE v.kind = "ins"    -> [pos |-> v.site, ref |-> <<vw.g[v.site]>>, alt |-> <<vw.g[v.site]>> \o v.alt]
      [] v.kind = "del"    -> [pos |-> v.site - 1, ref |-> <<vw.g[v.site - 1]>> \o v.ref, alt |-> <<vw.g[v.site - 1]>>]
      [] v.kind = "delins" -> [pos |-> v.site, ref |-> v.ref, alt |-> v.alt]
IsPrefix(s, t) == Len(s) <= Len(t) /\ \A i \in 1..Len(s) : s[i] = t[i]
\* key under which a long read's CIGAR indel is matched, for an equivalent placement ev
LongReadKey(ev) ==
    IF Len(ev.ref) < Len(ev.alt) /\ IsPrefix(ev.ref, ev.alt)
      THEN [at |-> ev.pos + Len(ev.ref), kind |-> "ins", seq |-> Sub(ev.alt, Len(ev.ref) + 1, Len(ev.alt))]
    ELSE IF Len(ev.ref) > Len(ev.alt) /\ IsPrefix(ev.alt, ev.ref)
      THEN [at |-> ev.pos + Len(ev.alt), kind |-> "del", seq |-> Sub(ev.ref, Len(ev.alt) + 1, Len(ev.ref))]
    ELSE [at |-> 0, kind |-> "none", seq |-> << >>]

\* the pair of neighbouring genome letters (left index) between which an insertion lies
DbInsLeft(v) == v.site
VcfInsLeft(rv) == rv.pos + Len(rv.ref) - 1
CigarInsLeft(k) == k.at - 1

InsertionAnchorAgrees(vw, v) ==
    LET rv == RealignVariant(vw, v)
        k  == LongReadKey(rv)
    IN /\ v.kind \in {"ins", "del", "delins"}
       /\ (v.kind # "ins" => v.site >= 2)
       /\ VcfMeaning(vw.g, rv) = ApplyGenome(vw.g, v)
       /\ AlleleAt(vw.g, rv.pos, rv.ref)
       /\ v.kind \in {"ins", "del"} => /\ k.kind = v.kind
                                       /\ CigarMeaning(vw.g, k) = ApplyGenome(vw.g, v)
       /\ v.kind = "ins" => DbInsLeft(v) = VcfInsLeft(rv) /\ VcfInsLeft(rv) = CigarInsLeft(k)

(* ------------------------------------------------------------------------ *)
(* Effect inference of a NOVEL genome substitution (get_functional): it     *)
(* must be evaluated at the RefSeq position the map gives, with the alleles *)
(* oriented to the gene's strand.                                           *)
(* ------------------------------------------------------------------------ *)
Compl2(strand, b) == IF strand = 1 THEN b ELSE Compl(b)
InferSub(vw, c, gref, galt) ==
    [pos |-> vw.c2r[c], ref |-> Compl2(vw.strand, gref), alt |-> Compl2(vw.strand, galt)]
=============================================================================
