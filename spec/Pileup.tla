------------------------------- MODULE Pileup -------------------------------
(***************************************************************************)
(* C06 state machine over the operators of PileupDefs: reads are processed *)
(* one after the other (StartRead applies the eligibility rules, StepOp    *)
(* consumes one CIGAR operation, EndRead merges multi-nucleotide           *)
(* substitutions and writes table + phase record), and the invariants      *)
(* relate the resulting table to the declarative definition.               *)
(***************************************************************************)
EXTENDS PileupDefs

VARIABLES reads,     \* Seq(read): the input, in processing order
          nd,        \* number of reads completely processed
          pc,        \* "idle" | "walk"
          k,         \* next CIGAR operation of the current read
          w,         \* walker state of the current read
          table,     \* bag of observations
          phases     \* fragment name -> (site -> allele <<kind, a, b>>)
vars == <<reads, nd, pc, k, w, table, phases>>

(* actions *)
Cur == reads[nd + 1]
StartRead ==
    /\ pc = "idle" /\ nd < Len(reads)
    /\ IF Eligible(Cur)
         THEN pc' = "walk" /\ k' = 1 /\ w' = W0(Cur) /\ nd' = nd
         ELSE pc' = "idle" /\ nd' = nd + 1 /\ UNCHANGED <<k, w>>      \* `continue`
    /\ UNCHANGED <<reads, table, phases>>
StepOp ==
    /\ pc = "walk" /\ k <= Len(Cur.cigar)
    /\ w' = OpEffect(Cur, w, Cur.cigar[k][1], Cur.cigar[k][2])
    /\ k' = k + 1
    /\ UNCHANGED <<reads, nd, pc, table, phases>>
EndRead ==
    /\ pc = "walk" /\ k > Len(Cur.cigar)
    /\ LET m == Merge(w)
           old == IF Cur.name \in DOMAIN phases THEN phases[Cur.name] ELSE <<>>
       IN /\ table' = table (+) BagOfSeq(m.obs)
          /\ phases' = [f \in (DOMAIN phases) \cup {Cur.name} |->
                            IF f = Cur.name THEN SetPhase(old, m.phase) ELSE phases[f]]
    /\ nd' = nd + 1 /\ pc' = "idle"
    /\ UNCHANGED <<reads, k, w>>
Next == StartRead \/ StepOp \/ EndRead

Start == nd = 0 /\ pc = "idle" /\ k = 0 /\ w = W0([start |-> 0]) /\ table = EmptyBag /\ phases = <<>>

(* ------------------------------------------------------------------ properties *)
Done == SubSeq(reads, 1, nd)
Sites == LET lo == 0 - 4 IN lo..(G.len + 12)
CountAt(t, s, kinds) == SumKeys(t, {o \in DOMAIN t : o[1] = s /\ o[2] \in kinds})
NonInsKinds == {"ref", "sub", "del", "mnp"}

(* roles of a read at a site with respect to the catalogued multi-nucleotide substitutions *)
MnpFirst(r, s) == {mi \in DOMAIN G.mnps : G.mnps[mi].pos = s /\ Complete(r, G.mnps[mi])}
MnpLater(r, s) == {mi \in DOMAIN G.mnps : /\ Complete(r, G.mnps[mi])
                                          /\ \E x \in 2..Len(G.mnps[mi].offs) : G.mnps[mi].pos + G.mnps[mi].offs[x] = s}

OperationalEqualsDeclarative == pc = "idle" =>
    /\ table = DeclTable(Done)
    /\ \A i \in Elig(Done) : DeclReadBag(Done[i]) = DeclReadBagBySite(Done[i])
DepthConservation == pc = "idle" =>
    \A s \in Sites : CountAt(table, s, NonInsKinds) = Cardinality({i \in Elig(Done) : Spans(Done[i], s)})
(* within the mapped part: a substitution count = eligible reads showing that base (not merged into a    *)
(* complete MNP); reference count = reads showing the reference base + reads whose complete MNP covers  *)
(* the site at a later position; MNP count at its first position = reads showing the complete MNP      *)
SubCounts == pc = "idle" =>
    \A s \in Sites : Mapped(s) =>
        /\ \A b \in (0..4) \ {RefAt(s)} :
              SumKeys(table, {o \in DOMAIN table : o[1] = s /\ o[2] = "sub" /\ o[4] = b})
                = Cardinality({i \in Elig(Done) : BaseAt(Done[i], s) = b /\ MnpFirst(Done[i], s) = {} /\ MnpLater(Done[i], s) = {}})
        /\ CountAt(table, s, {"ref"})
                = Cardinality({i \in Elig(Done) : BaseAt(Done[i], s) = RefAt(s) \/ MnpLater(Done[i], s) # {}})
        /\ \A mi \in DOMAIN G.mnps : G.mnps[mi].pos = s =>
              SumKeys(table, {o \in DOMAIN table : o[1] = s /\ o[2] = "mnp" /\ o[3] = mi})
                = Cardinality({i \in Elig(Done) : Complete(Done[i], G.mnps[mi])})
OrderIndependent == (pc = "idle" /\ nd = Len(reads)) =>
    \A p \in Permutations(DOMAIN reads) : OpTable([i \in DOMAIN reads |-> reads[p[i]]]) = table
SplitInvariant == pc = "idle" =>
    \A i \in {x \in DOMAIN Done : WellFormed(Done[x])} : \A r2 \in SplitsOK(Done[i]) \cup Relabels(Done[i]) :
        RunReadBag(r2) = RunReadBag(Done[i]) /\ Eligible(r2) = Eligible(Done[i])
PhaseRecordSound == pc = "idle" =>
    \A f \in {Done[i].name : i \in DOMAIN Done} : \A s \in PhaseableIn(1, G.len) :
        LET sh == FragShows(Done, f, s)
            has == f \in DOMAIN phases /\ s \in DOMAIN phases[f]
        IN (has <=> sh # {}) /\ (has => phases[f][s] \in sh)
QObs(r, s) == <<Bin(r.mapq), Bin(r.qual[QIdx(r, CHOOSE j \in MCover(r, s) : TRUE, s)])>>
QualityKept == pc = "idle" =>
    \A s \in Sites :
        LET who == {i \in Elig(Done) : MCover(Done[i], s) # {} /\ MnpFirst(Done[i], s) = {}}
        IN  /\ \A i \in who :
                 SumKeys(table, {o \in DOMAIN table : o[1] = s /\ o[2] \in {"ref", "sub"} /\ <<o[5], o[6]>> = QObs(Done[i], s)})
                   = Cardinality({x \in who : QObs(Done[x], s) = QObs(Done[i], s)})
            /\ \A o \in DOMAIN table : (o[1] = s /\ o[2] \in {"ref", "sub"}) => \E i \in who : QObs(Done[i], s) = <<o[5], o[6]>>
MnpQualityKept == pc = "walk" /\ k > Len(Cur.cigar) =>
    \A i \in DOMAIN Merge(w).mnpq : LET e == Merge(w).mnpq[i] IN e[2] = Bin(Cur.mapq) /\ e[3] <= e[4]
=============================================================================
