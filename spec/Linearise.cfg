SPECIFICATION Spec
