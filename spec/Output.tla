------------------------------- MODULE Output -------------------------------
(***************************************************************************)
(* C12 - result files state exactly the reported solutions.                *)
(*                                                                         *)
(* Vocabulary                                                              *)
(*   variant table  T : variant id -> [site, kind, l, r, op, cov, effect,  *)
(*                      rsid, cat, win]                                    *)
(*       site  0-based genome position, kind in {"sub","ins","del",        *)
(*       "delins"}, l / r = replaced / replacing bases (sequences of       *)
(*       one-letter strings, "." = unchanged base inside a multi-base      *)
(*       substitution), op = the gene's spelling of the change ("A>T",     *)
(*       "insTT", "delGT"), cov = read support of the variant in the       *)
(*       sample, effect / rsid = the database's annotation, cat = whether  *)
(*       the database knows the variant at all, win = [start, seq] the     *)
(*       genome-oriented reference around the variant (seq[1] at `start`)  *)
(*   copy      [major, minor, core, silent, added, missing] (sets of ids)  *)
(*   solution  [sid, dipl, copies]  dipl = the solution's diplotype        *)
(*                                                                         *)
(* SEMANTIC LAYER: Carried, Rows, GT/MA/MI, Spells, the verdict operators  *)
(* DecompItems / VcfItems (every deviation of a parsed file from the       *)
(* reported solutions) and the parse-back functions.                       *)
(* OPERATIONAL LAYER: the writers as actions Dispatch, WriteDecomposition, *)
(* WriteVcf (flag `bug` reproduces the shipped write_vcf), checked by      *)
(* MC_Output: parse-back of what the spec's own writers produce recovers   *)
(* the solutions.                                                          *)
(***************************************************************************)
EXTENDS Integers, Sequences, FiniteSets, TLC, TLCExt

SeqSet(s) == {s[j] : j \in DOMAIN s}

(* ======================= 1. what a copy carries ========================== *)
Defined(c) == c.core \cup c.silent \cup c.added
Carried(c) == Defined(c) \ c.missing          \* definition plus additions minus losses

(* ======================= 2. decomposition ================================ *)
(* One row per (copy i, v in Carried(copy i)); one EMPTY row (var = 0) per copy that carries  *)
(* nothing.  Copies are numbered from 0.  A row shows the solution id, the solution's         *)
(* diplotype, the list of minor alleles, the copy's minor allele and - from the variant       *)
(* table - position (0-based, as the gene stores it), change, read support, effect, dbSNP id. *)
MinorList(s) == [i \in DOMAIN s.copies |-> s.copies[i].minor]
RowKeys(s) ==
    UNION {IF Carried(s.copies[i]) = {} THEN {<<i - 1, 0>>} ELSE {<<i - 1, v>> : v \in Carried(s.copies[i])}
           : i \in DOMAIN s.copies}
Row(T, s, k) ==
    [sol |-> s.sid, dipl |-> s.dipl, minors |-> MinorList(s), copy |-> k[1], allele |-> s.copies[k[1] + 1].minor,
     var |-> k[2]]
Rows(T, s) == {Row(T, s, k) : k \in RowKeys(s)}

(* a parsed row (text) against the table: which variant does it show? *)
RowVar(T, row) ==
    IF row.empty THEN 0
    ELSE IF \E v \in DOMAIN T : T[v].site = row.pos /\ T[v].op = row.op
         THEN CHOOSE v \in DOMAIN T : T[v].site = row.pos /\ T[v].op = row.op
         ELSE -1
(* every deviation of the parsed rows of ONE solution from Rows(T, s): a set of <<clause, copy, var, row#>> *)
DecompItems(T, s, rows) ==
    LET keyf == TLCEval([j \in DOMAIN rows |-> <<rows[j].copy, RowVar(T, rows[j])>>])
        key(j) == keyf[j]
        want == RowKeys(s)
        n == Len(s.copies)
    IN  {<<IF k[2] = 0 THEN "EmptyRowMissing" ELSE "RowMissing", k[1], k[2], 0>> :
            k \in {k \in want : ~\E j \in DOMAIN rows : key(j) = k}}
        \cup
        {<<IF key(j)[2] = 0 THEN "EmptyRowUnexpected" ELSE IF key(j)[2] = -1 THEN "RowOfUnknownVariant" ELSE "RowNotCarried",
           rows[j].copy, key(j)[2], j>> : j \in {j \in DOMAIN rows : key(j) \notin want}}
        \cup
        {<<"RowDuplicated", rows[j].copy, key(j)[2], j>> :
            j \in {j \in DOMAIN rows : \E j2 \in DOMAIN rows : j2 < j /\ key(j2) = key(j)}}
        \cup
        {<<"RowHeader", rows[j].copy, key(j)[2], j>> :
            j \in {j \in DOMAIN rows :
                    \/ rows[j].sol # s.sid \/ rows[j].dipl # s.dipl \/ rows[j].minors # MinorList(s)
                    \/ (rows[j].copy \in 0..(n - 1) /\ rows[j].allele # s.copies[rows[j].copy + 1].minor)}}
        \cup
        {<<"RowFields", rows[j].copy, key(j)[2], j>> :
            j \in {j \in DOMAIN rows :
                    LET v == key(j)[2] IN
                    v > 0 /\ ( \/ rows[j].cov # T[v].cov
                               \/ rows[j].rsid # T[v].rsid
                               \/ (T[v].cat /\ rows[j].effect # T[v].effect) )}}

(* what a decomposition can carry back: per copy the minor allele and the carried set *)
AbstractOfSolution(s) ==
    [sid |-> s.sid, dipl |-> s.dipl, minors |-> MinorList(s),
     carried |-> [i \in DOMAIN s.copies |-> Carried(s.copies[i])]]
ParseBack(rowset) ==        \* rowset: a set of abstract rows of ONE solution (as produced by Rows)
    LET any == CHOOSE x \in rowset : TRUE IN
    [sid |-> any.sol, dipl |-> any.dipl, minors |-> any.minors,
     carried |-> [i \in DOMAIN any.minors |-> {x.var : x \in {y \in rowset : y.copy = i - 1 /\ y.var # 0}}]]

(* ======================= 3. VCF ========================================== *)
GT(s, i, v) == IF v \in Carried(s.copies[i]) THEN 1 ELSE 0
MA(s, i, v) == IF v \in Carried(s.copies[i]) THEN s.copies[i].major ELSE "-"
MI(s, i, v) == IF v \in Carried(s.copies[i]) THEN s.copies[i].minor ELSE "-"
AllCarried(S) == UNION {UNION {Carried(S[j].copies[i]) : i \in DOMAIN S[j].copies} : j \in DOMAIN S}

(* ---- spelling against the reference ---- *)
(* Apply a replacement (0-based site p, `dl` bases removed, `ins` inserted) to the window. *)
InWindow(R, p, dl) == p >= R.start /\ p + dl <= R.start + Len(R.seq)
Replace(R, p, dl, ins) ==
    LET o == p - R.start IN SubSeq(R.seq, 1, o) \o ins \o SubSeq(R.seq, o + dl + 1, Len(R.seq))
RefAt(R, p, n) == SubSeq(R.seq, p - R.start + 1, p - R.start + n)
(* the haplotype a catalogued variant denotes *)
VarHap(t) ==
    LET R == t.win IN
    CASE t.kind = "sub"    -> Replace(R, t.site, Len(t.l), [j \in DOMAIN t.r |-> IF t.r[j] = "." THEN RefAt(R, t.site, Len(t.l))[j] ELSE t.r[j]])
      [] t.kind = "ins"    -> Replace(R, t.site + 1, 0, t.r)              \* inserted AFTER the anchor base `site`
      [] t.kind = "del"    -> Replace(R, t.site, Len(t.l), <<>>)
      [] t.kind = "delins" -> Replace(R, t.site, Len(t.l), t.r)
Bases == {"A", "C", "G", "T", "N"}
(* a VCF record (one-based POS, REF, ALT) spells variant t iff REF and ALT are non-empty base strings, *)
(* REF is what the reference has at POS, and replacing it by ALT gives the variant's haplotype.       *)
Spells(t, pos1, ref, alt) ==
    LET R == t.win IN
    /\ ref # <<>> /\ alt # <<>>
    /\ SeqSet(ref) \subseteq Bases /\ SeqSet(alt) \subseteq Bases
    /\ InWindow(R, pos1 - 1, Len(ref))
    /\ RefAt(R, pos1 - 1, Len(ref)) = ref
    /\ Replace(R, pos1 - 1, Len(ref), alt) = VarHap(t)
(* the canonical spelling (left anchor base for insertions and deletions) *)
VcfSpelling(t) ==
    LET R == t.win IN
    CASE t.kind = "sub" ->
            [pos1 |-> t.site + 1, ref |-> RefAt(R, t.site, Len(t.l)),
             alt |-> [j \in DOMAIN t.r |-> IF t.r[j] = "." THEN RefAt(R, t.site, Len(t.l))[j] ELSE t.r[j]]]
      [] t.kind = "ins" ->
            [pos1 |-> t.site + 1, ref |-> RefAt(R, t.site, 1), alt |-> RefAt(R, t.site, 1) \o t.r]
      [] t.kind = "del" ->
            [pos1 |-> t.site, ref |-> RefAt(R, t.site - 1, Len(t.l) + 1), alt |-> RefAt(R, t.site - 1, 1)]
      [] t.kind = "delins" ->
            [pos1 |-> t.site + 1, ref |-> RefAt(R, t.site, Len(t.l)), alt |-> t.r]

(* which variant does a record describe?  The one it spells; if it spells none, the only candidate at  *)
(* its position (site + 1 = POS, or for an anchored deletion site = POS) that no other record spells;  *)
(* else unknown (0).                                                                                   *)
SpelledBy(T, rec) == {v \in DOMAIN T : Spells(T[v], rec.pos1, rec.ref, rec.alt)}
AtPos(T, rec) == {v \in DOMAIN T : T[v].site + 1 = rec.pos1 \/ (T[v].kind = "del" /\ T[v].site = rec.pos1)}
(* every deviation of a parsed VCF from the solution list S: <<clause, record#, column, copy, var>> *)
VcfItems(T, S, f) ==
    LET K == DOMAIN f.recs
        spelled == TLCEval([k \in K |-> SpelledBy(T, f.recs[k])])     \* TLCEval: evaluate once (a lazy function would be re-evaluated at every use)
        elsewhere(k) == UNION {spelled[k2] : k2 \in {k2 \in K : k2 # k /\ Cardinality(spelled[k2]) = 1}}
        varf == TLCEval([k \in K |->
                    IF Cardinality(spelled[k]) = 1 THEN CHOOSE v \in spelled[k] : TRUE
                    ELSE LET cand == AtPos(T, f.recs[k]) \ elsewhere(k) IN
                         IF Cardinality(cand) = 1 THEN CHOOSE v \in cand : TRUE ELSE 0])
        var(k) == varf[k]
    IN  (IF Len(f.cols) # Len(S) THEN {<<"VcfColumns", 0, 0, 0, 0>>} ELSE {})
        \cup {<<"VcfColumnIsSolution", 0, j, 0, 0>> :
                j \in {j \in DOMAIN f.cols \cap DOMAIN S : f.cols[j].idx # j - 1 \/ f.cols[j].dipl # S[j].dipl}}
        \cup {<<"VcfRecordMissing", 0, 0, 0, v>> : v \in {v \in AllCarried(S) : ~\E k \in K : var(k) = v}}
        \cup {<<"VcfRecordDuplicated", k, 0, 0, var(k)>> : k \in {k \in K : var(k) # 0 /\ \E k2 \in K : k2 < k /\ var(k2) = var(k)}}
        \cup {<<"VcfRecordOfUnknownVariant", k, 0, 0, 0>> : k \in {k \in K : var(k) = 0}}
        \cup {<<"RefAlt", k, 0, 0, var(k)>> :
                k \in {k \in K : var(k) # 0 /\ ~Spells(T[var(k)], f.recs[k].pos1, f.recs[k].ref, f.recs[k].alt)}}
        \cup {<<"DP", k, 0, 0, var(k)>> :
                k \in {k \in K : var(k) # 0 /\ \E j \in DOMAIN f.recs[k].data : f.recs[k].data[j].dp # T[var(k)].cov}}
        \cup UNION {UNION {
                LET d == f.recs[k].data[j]
                    n == Len(S[j].copies)
                    v == var(k)
                IN  \* a cell must have exactly one ':'-separated field per FORMAT key, else it cannot be read back
                    IF d.nf # f.recs[k].nkeys THEN {<<"CellFields", k, j, 0, v>>}
                    ELSE
                    (IF Len(d.gt) # n \/ Len(d.ma) # n \/ Len(d.mi) # n THEN {<<"Arity", k, j, 0, v>>} ELSE {})
                    \cup {<<"GT", k, j, i - 1, v>> : i \in {i \in 1..n : i <= Len(d.gt) /\ d.gt[i] # GT(S[j], i, v)}}
                    \cup {<<"MA", k, j, i - 1, v>> : i \in {i \in 1..n : i <= Len(d.ma) /\ d.ma[i] # MA(S[j], i, v)}}
                    \cup {<<"MI", k, j, i - 1, v>> : i \in {i \in 1..n : i <= Len(d.mi) /\ d.mi[i] # MI(S[j], i, v)}}
                : j \in DOMAIN f.recs[k].data \cap DOMAIN S} : k \in {k \in K : var(k) # 0}}

(* what a VCF sample column can carry back: the diplotype, the number of copies, the carried set   *)
(* of every copy and the names of the copies that carry at least one variant                       *)
AbstractOfColumn(S, j) ==
    [dipl |-> S[j].dipl, n |-> Len(S[j].copies),
     carried |-> [i \in DOMAIN S[j].copies |-> Carried(S[j].copies[i])],
     names |-> [i \in DOMAIN S[j].copies |->
                    IF Carried(S[j].copies[i]) = {} THEN <<"-", "-">> ELSE <<S[j].copies[i].major, S[j].copies[i].minor>>]]
ParseBackVcf(f, j) ==       \* f: an abstract VCF whose records carry their variant id in .var
    LET n == f.cols[j].n
        has(i) == {k \in DOMAIN f.recs : f.recs[k].data[j].gt[i] = 1}
    IN  [dipl |-> f.cols[j].dipl, n |-> n,
         carried |-> [i \in 1..n |-> {f.recs[k].var : k \in has(i)}],
         names |-> [i \in 1..n |->
                        IF has(i) = {} THEN <<"-", "-">>
                        ELSE LET k == CHOOSE k \in has(i) : TRUE IN <<f.recs[k].data[j].ma[i], f.recs[k].data[j].mi[i]>>]]

(* ======================= 4. output-kind dispatch ========================= *)
(* by file extension: ".vcf" -> VCF, ".simple" -> one summary line, anything else -> decomposition *)
KindOf(ext) == IF ext = "vcf" THEN "vcf" ELSE IF ext = "simple" THEN "simple" ELSE "aldy"

(* ======================= 5. the writers as actions ======================= *)
(* bug = "none": the writers as the property wants them.                                          *)
(* bug = "shared": write_vcf as shipped - ONE genotype table shared by all sample columns         *)
(*                 (`[defaultdict(int)] * len(minors)`), so a column shows the union over         *)
(*                 solutions (restricted to its own number of copies)                             *)
(* bug = "nomissing": write_vcf as shipped - lost variants are not subtracted                     *)
CONSTANTS VT, bug            \* variant table of the model, writer variant (see above)
VARIABLES S, ext, file, pc, done
ovars == <<S, ext, file, pc, done>>

SetToSortedSeq(A) ==        \* ids are integers: ascending
    LET RECURSIVE F(_)
        F(B) == IF B = {} THEN <<>> ELSE LET m == CHOOSE x \in B : \A y \in B : x <= y IN <<m>> \o F(B \ {m})
    IN  F(A)

WrittenCarry(j, i, v) ==    \* does the writer's table say copy i of solution j carries v?
    CASE bug = "none"      -> v \in Carried(S[j].copies[i])
      [] bug = "nomissing" -> v \in Defined(S[j].copies[i])
      [] bug = "shared"    -> \E j2 \in DOMAIN S : i \in DOMAIN S[j2].copies /\ v \in Carried(S[j2].copies[i])
WriteVcfFile ==
    LET vs == SetToSortedSeq(IF bug = "nomissing"
                             THEN UNION {UNION {Defined(S[j].copies[i]) : i \in DOMAIN S[j].copies} : j \in DOMAIN S}
                             ELSE AllCarried(S))
    IN  [kind |-> "vcf",
         cols |-> [j \in DOMAIN S |-> [idx |-> j - 1, dipl |-> S[j].dipl, n |-> Len(S[j].copies)]],
         recs |-> [k \in DOMAIN vs |->
                    LET v == vs[k] sp == VcfSpelling(VT[v]) IN
                    [var |-> v, pos1 |-> sp.pos1, ref |-> sp.ref, alt |-> sp.alt, nkeys |-> 4,
                     data |-> [j \in DOMAIN S |->
                                [gt |-> [i \in DOMAIN S[j].copies |-> IF WrittenCarry(j, i, v) THEN 1 ELSE 0],
                                 dp |-> VT[v].cov, nf |-> 4,
                                 ma |-> [i \in DOMAIN S[j].copies |-> IF WrittenCarry(j, i, v) THEN S[j].copies[i].major ELSE "-"],
                                 mi |-> [i \in DOMAIN S[j].copies |-> IF WrittenCarry(j, i, v) THEN S[j].copies[i].minor ELSE "-"]]]]]]

Dispatch ==
    /\ pc = "dispatch"
    /\ file' = [kind |-> KindOf(ext), blocks |-> <<>>]
    /\ pc' = KindOf(ext)
    /\ UNCHANGED <<S, ext, done>>
WriteDecomposition ==       \* one call per solution, in order
    /\ pc = "aldy" /\ done < Len(S)
    /\ file' = [file EXCEPT !.blocks = Append(@, Rows(VT, S[done + 1]))]
    /\ done' = done + 1
    /\ UNCHANGED <<S, ext, pc>>
WriteSimple ==
    /\ pc = "simple" /\ done < Len(S)
    /\ file' = [file EXCEPT !.blocks = Append(@, <<S[done + 1].dipl, MinorList(S[done + 1])>>)]
    /\ done' = done + 1
    /\ UNCHANGED <<S, ext, pc>>
WriteVcf ==
    /\ pc = "vcf"
    /\ file' = WriteVcfFile
    /\ done' = Len(S) /\ pc' = "closed"
    /\ UNCHANGED <<S, ext>>
Close ==
    /\ pc \in {"aldy", "simple"} /\ done = Len(S)
    /\ pc' = "closed"
    /\ UNCHANGED <<S, ext, file, done>>
ONext == Dispatch \/ WriteDecomposition \/ WriteSimple \/ WriteVcf \/ Close

(* ---- invariants (MC_Output) ---- *)
Closed == pc = "closed"
InvDispatch == pc # "dispatch" => file.kind = KindOf(ext)
(* parsing the decomposition back recovers every reported solution *)
InvParseBack ==
    (file.kind = "aldy" /\ pc # "dispatch") =>
        \A b \in DOMAIN file.blocks : ParseBack(file.blocks[b]) = AbstractOfSolution(S[b])
InvAllWritten == (Closed /\ file.kind \in {"aldy", "simple"}) => Len(file.blocks) = Len(S)
InvSimple ==
    (file.kind = "simple" /\ pc # "dispatch") =>
        \A b \in DOMAIN file.blocks : file.blocks[b] = <<S[b].dipl, MinorList(S[b])>>
(* parsing a VCF column back recovers the solution it stands for *)
InvParseBackVcf ==
    (Closed /\ file.kind = "vcf") => \A j \in DOMAIN S : ParseBackVcf(file, j) = AbstractOfColumn(S, j)
(* the canonical spelling spells its variant and no other variant of the table *)
InvSpelling ==
    (Closed /\ file.kind = "vcf") =>
        \A k \in DOMAIN file.recs :
            SpelledBy(VT, file.recs[k]) = {file.recs[k].var}
(* the deviation operators find nothing in what the correct writers produce *)
AsParsedVcf(f) ==
    [cols |-> f.cols,
     recs |-> [k \in DOMAIN f.recs |-> [pos1 |-> f.recs[k].pos1, ref |-> f.recs[k].ref, alt |-> f.recs[k].alt, nkeys |-> f.recs[k].nkeys, data |-> f.recs[k].data]]]
InvVcfItems == (Closed /\ file.kind = "vcf") => VcfItems(VT, S, AsParsedVcf(file)) = {}
AsParsedRows(rowset) ==
    LET sq == LET RECURSIVE F(_)
                  F(B) == IF B = {} THEN <<>> ELSE LET m == CHOOSE x \in B : TRUE IN <<m>> \o F(B \ {m})
              IN F(rowset)
    IN  [j \in DOMAIN sq |->
            [sol |-> sq[j].sol, dipl |-> sq[j].dipl, minors |-> sq[j].minors, copy |-> sq[j].copy, allele |-> sq[j].allele,
             empty |-> sq[j].var = 0,
             pos |-> IF sq[j].var = 0 THEN -1 ELSE VT[sq[j].var].site, op |-> IF sq[j].var = 0 THEN "" ELSE VT[sq[j].var].op,
             cov |-> IF sq[j].var = 0 THEN -1 ELSE VT[sq[j].var].cov, effect |-> IF sq[j].var = 0 THEN "" ELSE VT[sq[j].var].effect,
             rsid |-> IF sq[j].var = 0 THEN "" ELSE VT[sq[j].var].rsid]]
InvDecompItems ==
    (file.kind = "aldy" /\ pc # "dispatch") =>
        \A b \in DOMAIN file.blocks : DecompItems(VT, S[b], AsParsedRows(file.blocks[b])) = {}
=============================================================================
